(* Proofs/SemOps.v — SemTypeOps::union / intersect / diff are the set operations on what a semantic type denotes (mem),
   for every interpretation of the structural atoms; is_empty is emptiness on the basic fragment; hence
   is_subtype = inclusion there. *)
From Beff Require Import Model.SemSpec Model.Subtype Proofs.Bdd Proofs.SemType Proofs.ResLemmas.
From Coq Require Import Sorting.Permutation.

(* ================================================================ equality tests *)
Lemma list_eqb_spec {A} (eqb : A -> A -> bool) (l1 l2 : list A) :
  (forall a b, In a l1 -> (eqb a b = true <-> a = b)) -> (list_eqb eqb l1 l2 = true <-> l1 = l2).
Proof.
  revert l2. induction l1 as [|x l1 IH]; intros [|y l2] H; cbn.
  - tauto.
  - split; discriminate.
  - split; discriminate.
  - rewrite andb_true_iff, (H x y (or_introl eq_refl)), (IH l2 (fun a b Ha => H a b (or_intror Ha))).
    split; [intros [-> ->]; reflexivity|intros E; inversion E; auto].
Qed.

Fixpoint tpl_item_eqb_spec (a : tpl_item) : forall b, tpl_item_eqb a b = true <-> a = b.
Proof.
  destruct a as [| | |s|vs]; intros [| | |s'|vs']; cbn; try (split; discriminate); try tauto.
  - rewrite String.eqb_eq. split; [intros ->; reflexivity|intros E; inversion E; reflexivity].
  - assert (H : list_eqb tpl_item_eqb vs vs' = true <-> vs = vs').
    { revert vs'. induction vs as [|x vs IH]; intros [|y vs']; cbn; [tauto|split; discriminate|split; discriminate|].
      rewrite andb_true_iff, (tpl_item_eqb_spec x y), (IH vs'). split; [intros [-> ->]; reflexivity|intros E; inversion E; auto]. }
    rewrite H. split; [intros ->; reflexivity|intros E; inversion E; reflexivity].
Qed.

Lemma str_list_eqb_spec (l1 l2 : list string) : list_eqb String.eqb l1 l2 = true <-> l1 = l2.
Proof. apply list_eqb_spec. intros a b _. apply String.eqb_eq. Qed.

Lemma numval_eqb_spec a b : numval_eqb a b = true <-> a = b.
Proof.
  destruct a as [x|f a1], b as [y|g a2]; cbn; try (split; discriminate).
  - rewrite Z.eqb_eq. split; [intros ->; reflexivity|intros E; inversion E; reflexivity].
  - rewrite andb_true_iff, String.eqb_eq, str_list_eqb_spec. split; [intros [-> ->]; reflexivity|intros E; inversion E; auto].
Qed.
Lemma strval_eqb_spec a b : strval_eqb a b = true <-> a = b.
Proof.
  destruct a as [f a1|x], b as [g a2|y]; cbn; try (split; discriminate).
  - rewrite andb_true_iff, String.eqb_eq, str_list_eqb_spec. split; [intros [-> ->]; reflexivity|intros E; inversion E; auto].
  - rewrite (list_eqb_spec tpl_item_eqb x y (fun a b _ => tpl_item_eqb_spec a b)).
    split; [intros ->; reflexivity|intros E; inversion E; reflexivity].
Qed.
Lemma numval_is_sub_lit a b : numval_lit a = true -> numval_lit b = true -> numval_is_sub a b = Ok (numval_eqb a b).
Proof. destruct a, b; cbn; try discriminate; reflexivity. Qed.
Lemma strval_is_sub_lit a b : strval_lit a = true -> strval_lit b = true -> strval_is_sub a b = Ok (strval_eqb a b).
Proof.
  destruct a as [|[|[| | |s|] [|]]], b as [|[|[| | |s'|] [|]]]; cbn; try discriminate. intros _ _.
  rewrite andb_true_r. reflexivity.
Qed.

(* ================================================================ the allowed / excluded flag algebra *)
Section FlagsSpec.
  Context {K : Type}.
  Variable eqb : K -> K -> bool.
  Hypothesis eqb_spec : forall a b, eqb a b = true <-> a = b.
  Variable is_sub : K -> K -> res bool.
  Variable leb : K -> K -> bool.
  Variable lit : K -> bool.
  Hypothesis is_sub_lit : forall a b, lit a = true -> lit b = true -> is_sub a b = Ok (eqb a b).
  Variable mk : bool -> list K -> proper.
  Variable t : stag.

  Notation all_lit l := (forallb lit l = true).
  Notation lm := (lits_mem eqb).

  Lemma existsb_In_bool x l : existsb (eqb x) l = true <-> In x l.
  Proof. exact (existsb_eqb_In eqb eqb_spec x l). Qed.

  Lemma bool_of_iff (a b : bool) : (a = true <-> b = true) -> a = b.
  Proof. destruct a, b; intros [H1 H2]; try reflexivity; [symmetry; apply H1; reflexivity|apply H2; reflexivity]. Qed.

  Lemma lits_intersect_spec a1 v1 a2 v2 :
    all_lit v1 -> all_lit v2 ->
    exists a v, lits_intersect is_sub eqb leb mk t a1 v1 a2 v2 = Ok (lit_subtype mk t a v) /\ all_lit v /\
                forall x, lm a v x = lm a1 v1 x && lm a2 v2 x.
  Proof.
    intros H1 H2. unfold lits_intersect, lits_mem.
    destruct a1, a2.
    - destruct (sub_vec_intersect_lit eqb eqb_spec is_sub leb lit is_sub_lit v1 v2 H1 H2) as (v & -> & Hl & Hv).
      exists true, v. repeat split; auto. intros x. apply bool_of_iff.
      rewrite andb_true_iff, !existsb_In_bool. apply Hv.
    - destruct (sub_vec_diff_lit eqb eqb_spec is_sub leb lit is_sub_lit v1 v2 H1 H2) as (v & -> & Hl & Hv).
      exists true, v. repeat split; auto. intros x. apply bool_of_iff.
      rewrite andb_true_iff, negb_true_iff, <- not_true_iff_false, !existsb_In_bool. apply Hv.
    - destruct (sub_vec_diff_lit eqb eqb_spec is_sub leb lit is_sub_lit v2 v1 H2 H1) as (v & -> & Hl & Hv).
      exists true, v. repeat split; auto. intros x. apply bool_of_iff.
      rewrite andb_true_iff, negb_true_iff, <- not_true_iff_false, !existsb_In_bool. rewrite Hv. tauto.
    - destruct (sub_vec_union_lit eqb eqb_spec is_sub leb lit is_sub_lit v1 v2 H1 H2) as (v & -> & Hl & Hv).
      exists false, v. repeat split; auto. intros x. apply bool_of_iff.
      rewrite andb_true_iff, !negb_true_iff, <- !not_true_iff_false, !existsb_In_bool. rewrite Hv. tauto.
  Qed.

  Lemma lits_union_spec a1 v1 a2 v2 :
    all_lit v1 -> all_lit v2 ->
    exists a v, lits_union is_sub eqb leb mk t a1 v1 a2 v2 = Ok (lit_subtype mk t a v) /\ all_lit v /\
                forall x, lm a v x = lm a1 v1 x || lm a2 v2 x.
  Proof.
    intros H1 H2. unfold lits_union, lits_mem.
    destruct a1, a2.
    - destruct (sub_vec_union_lit eqb eqb_spec is_sub leb lit is_sub_lit v1 v2 H1 H2) as (v & -> & Hl & Hv).
      exists true, v. repeat split; auto. intros x. apply bool_of_iff.
      rewrite orb_true_iff, !existsb_In_bool. apply Hv.
    - destruct (sub_vec_diff_lit eqb eqb_spec is_sub leb lit is_sub_lit v2 v1 H2 H1) as (v & -> & Hl & Hv).
      exists false, v. repeat split; auto. intros x. apply bool_of_iff.
      rewrite orb_true_iff, !negb_true_iff, <- !not_true_iff_false, !existsb_In_bool. rewrite Hv.
      destruct (in_dec (fun a b => match eqb a b as r return (eqb a b = r -> {a = b} + {a <> b}) with
                                   | true => fun E => left (proj1 (eqb_spec a b) E)
                                   | false => fun E => right (fun H => eq_ind true (fun r => r = false -> False) (fun H0 => Bool.diff_true_false H0) _ (eq_sym (proj2 (eqb_spec a b) H)) E)
                                   end eq_refl) x v1); tauto.
    - destruct (sub_vec_diff_lit eqb eqb_spec is_sub leb lit is_sub_lit v1 v2 H1 H2) as (v & -> & Hl & Hv).
      exists false, v. repeat split; auto. intros x. apply bool_of_iff.
      rewrite orb_true_iff, !negb_true_iff, <- !not_true_iff_false, !existsb_In_bool. rewrite Hv.
      destruct (existsb (eqb x) v2) eqn:E; [apply existsb_In_bool in E; tauto|].
      assert (~ In x v2) by (intros Hin; apply existsb_In_bool in Hin; congruence). tauto.
    - destruct (sub_vec_intersect_lit eqb eqb_spec is_sub leb lit is_sub_lit v1 v2 H1 H2) as (v & -> & Hl & Hv).
      exists false, v. repeat split; auto. intros x. apply bool_of_iff.
      rewrite orb_true_iff, !negb_true_iff, <- !not_true_iff_false, !existsb_In_bool. rewrite Hv.
      destruct (existsb (eqb x) v1) eqn:E; [apply existsb_In_bool in E|]; [|assert (~ In x v1) by (intros Hin; apply existsb_In_bool in Hin; congruence)]; tauto.
  Qed.
End FlagsSpec.

(* ================================================================ proper subtypes *)
Definition pfrag (p : proper) : bool :=
  match p with PTypedArray _ _ | PVoidUndefined _ _ => false | _ => proper_frag p end.
(* the points a value can be: one point per unit tag, structured points only for the structural tags *)
Definition valid_point (pt : point) : bool :=
  match pt with
  | PtUnit t => match t with TgNull | TgOptionalProp | TgBigInt | TgDate | TgVoidUndefined => true | _ => false end
  | PtStruct t _ => match t with TgMapping | TgList | TgMap | TgSet => true | _ => false end
  | _ => true
  end.
Definition sub_ok (tau : stag) (s : subtype) : Prop :=
  match s with
  | SFalse t | STrue t => t = tau
  | SProper p => proper_tag p = tau /\ pfrag p = true
  end.

Lemma pmem_tag p pt : pmem p pt = true -> proper_tag p = point_tag pt.
Proof. destruct p, pt; cbn; try discriminate; try reflexivity; destruct t; try discriminate; reflexivity. Qed.

Lemma smem_lit_num a v z : smem (lit_subtype PNumber TgNumber a v) (PtNum z) = lits_mem numval_eqb a v (NLit z).
Proof. destruct v as [|x v]; [destruct a; reflexivity|reflexivity]. Qed.
Lemma smem_lit_str a v s : smem (lit_subtype PString TgString a v) (PtStr s) = lits_mem strval_eqb a v (lit_str s).
Proof. destruct v as [|x v]; [destruct a; reflexivity|reflexivity]. Qed.
Lemma sub_ok_lit_num a v : forallb numval_lit v = true -> sub_ok TgNumber (lit_subtype PNumber TgNumber a v).
Proof. destruct v as [|x v]; [destruct a; reflexivity|]. intros H. cbn [lit_subtype sub_ok proper_tag pfrag proper_frag]. rewrite H. auto. Qed.
Lemma sub_ok_lit_str a v : forallb strval_lit v = true -> sub_ok TgString (lit_subtype PString TgString a v).
Proof. destruct v as [|x v]; [destruct a; reflexivity|]. intros H. cbn [lit_subtype sub_ok proper_tag pfrag proper_frag]. rewrite H. auto. Qed.

Lemma pfrag_num a v : pfrag (PNumber a v) = true -> forallb numval_lit v = true.
Proof. cbn. intros H. apply andb_prop in H as [H _]. exact H. Qed.
Lemma pfrag_str a v : pfrag (PString a v) = true -> forallb strval_lit v = true.
Proof. cbn. intros H. apply andb_prop in H as [H _]. exact H. Qed.

Ltac point_cases pt Hv Ht :=
  destruct pt as [x|z|s|k|u|u rho]; cbn in Ht; try discriminate Ht;
  try (subst u; cbn in Hv; try discriminate Hv).

Definition num_inter := lits_intersect_spec numval_eqb numval_eqb_spec numval_is_sub numval_leb numval_lit numval_is_sub_lit PNumber TgNumber.
Definition str_inter := lits_intersect_spec strval_eqb strval_eqb_spec strval_is_sub strval_leb strval_lit strval_is_sub_lit PString TgString.
Definition num_union := lits_union_spec numval_eqb numval_eqb_spec numval_is_sub numval_leb numval_lit numval_is_sub_lit PNumber TgNumber.
Definition str_union := lits_union_spec strval_eqb strval_eqb_spec strval_is_sub strval_leb strval_lit strval_is_sub_lit PString TgString.

Lemma bdd_res_ok o b : bdd_res o = Ok b -> o = Some b.
Proof. destruct o; cbn; congruence. Qed.

(* keep the kernel from unfolding the fuelled diagram operations when it re-checks conversions *)
Opaque intersect union diff complement FUEL_BDD.

Lemma proper_intersect_spec p1 p2 s :
  pfrag p1 = true -> pfrag p2 = true -> proper_tag p1 = proper_tag p2 -> proper_intersect p1 p2 = Ok s ->
  sub_ok (proper_tag p1) s /\
  forall pt, valid_point pt = true -> point_tag pt = proper_tag p1 -> smem s pt = pmem p1 pt && pmem p2 pt.
Proof.
  intros F1 F2 Ht Hs.
  destruct p1 as [b1|a1 v1|a1 v1|d1|d1|a1 v1|a1 v1|d1|d1], p2 as [b2|a2 v2|a2 v2|d2|d2|a2 v2|a2 v2|d2|d2];
    try discriminate Ht; try discriminate F1; try discriminate F2; cbn [proper_intersect] in Hs.
  - inversion Hs; subst s. destruct (Bool.eqb b1 b2) eqn:E.
    + split; [split; reflexivity|]. intros pt Hv Hp. point_cases pt Hv Hp. cbn.
      apply Bool.eqb_prop in E. subst. destruct (Bool.eqb b2 x); reflexivity.
    + split; [reflexivity|]. intros pt Hv Hp. point_cases pt Hv Hp. cbn.
      destruct b1, b2, x; try reflexivity; discriminate E.
  - destruct (num_inter a1 v1 a2 v2 (pfrag_num _ _ F1) (pfrag_num _ _ F2)) as (a & v & E & Hl & Hm).
    rewrite E in Hs. inversion Hs; subst s. split; [apply sub_ok_lit_num; exact Hl|].
    intros pt Hv Hp. point_cases pt Hv Hp. rewrite smem_lit_num. apply Hm.
  - destruct (str_inter a1 v1 a2 v2 (pfrag_str _ _ F1) (pfrag_str _ _ F2)) as (a & v & E & Hl & Hm).
    rewrite E in Hs. inversion Hs; subst s. split; [apply sub_ok_lit_str; exact Hl|].
    intros pt Hv Hp. point_cases pt Hv Hp. rewrite smem_lit_str. apply Hm.
  - destruct (bdd_res (intersect FUEL_BDD d1 d2)) as [b|e] eqn:E; cbn [bind] in Hs; [|discriminate]. inversion Hs; subst s.
    split; [split; reflexivity|]. intros pt Hv Hp. point_cases pt Hv Hp. cbn.
    apply (intersect_sound rho _ _ _ _ (bdd_res_ok _ _ E)).
  - destruct (bdd_res (intersect FUEL_BDD d1 d2)) as [b|e] eqn:E; cbn [bind] in Hs; [|discriminate]. inversion Hs; subst s.
    split; [split; reflexivity|]. intros pt Hv Hp. point_cases pt Hv Hp. cbn.
    apply (intersect_sound rho _ _ _ _ (bdd_res_ok _ _ E)).
  - destruct (bdd_res (intersect FUEL_BDD d1 d2)) as [b|e] eqn:E; cbn [bind] in Hs; [|discriminate]. inversion Hs; subst s.
    split; [split; reflexivity|]. intros pt Hv Hp. point_cases pt Hv Hp. cbn.
    apply (intersect_sound rho _ _ _ _ (bdd_res_ok _ _ E)).
  - destruct (bdd_res (intersect FUEL_BDD d1 d2)) as [b|e] eqn:E; cbn [bind] in Hs; [|discriminate]. inversion Hs; subst s.
    split; [split; reflexivity|]. intros pt Hv Hp. point_cases pt Hv Hp. cbn.
    apply (intersect_sound rho _ _ _ _ (bdd_res_ok _ _ E)).
Qed.

Lemma proper_union_spec p1 p2 s :
  pfrag p1 = true -> pfrag p2 = true -> proper_tag p1 = proper_tag p2 -> proper_union p1 p2 = Ok s ->
  sub_ok (proper_tag p1) s /\
  forall pt, valid_point pt = true -> point_tag pt = proper_tag p1 -> smem s pt = pmem p1 pt || pmem p2 pt.
Proof.
  intros F1 F2 Ht Hs.
  destruct p1 as [b1|a1 v1|a1 v1|d1|d1|a1 v1|a1 v1|d1|d1], p2 as [b2|a2 v2|a2 v2|d2|d2|a2 v2|a2 v2|d2|d2];
    try discriminate Ht; try discriminate F1; try discriminate F2; cbn [proper_union] in Hs.
  - inversion Hs; subst s. destruct (Bool.eqb b1 b2) eqn:E.
    + split; [split; reflexivity|]. intros pt Hv Hp. point_cases pt Hv Hp. cbn.
      apply Bool.eqb_prop in E. subst. destruct (Bool.eqb b2 x); reflexivity.
    + split; [reflexivity|]. intros pt Hv Hp. point_cases pt Hv Hp. cbn.
      destruct b1, b2, x; try reflexivity; discriminate E.
  - destruct (num_union a1 v1 a2 v2 (pfrag_num _ _ F1) (pfrag_num _ _ F2)) as (a & v & E & Hl & Hm).
    rewrite E in Hs. inversion Hs; subst s. split; [apply sub_ok_lit_num; exact Hl|].
    intros pt Hv Hp. point_cases pt Hv Hp. rewrite smem_lit_num. apply Hm.
  - destruct (str_union a1 v1 a2 v2 (pfrag_str _ _ F1) (pfrag_str _ _ F2)) as (a & v & E & Hl & Hm).
    rewrite E in Hs. inversion Hs; subst s. split; [apply sub_ok_lit_str; exact Hl|].
    intros pt Hv Hp. point_cases pt Hv Hp. rewrite smem_lit_str. apply Hm.
  - destruct (bdd_res (union FUEL_BDD d1 d2)) as [b|e] eqn:E; cbn [bind] in Hs; [|discriminate]. inversion Hs; subst s.
    split; [split; reflexivity|]. intros pt Hv Hp. point_cases pt Hv Hp. cbn.
    apply (union_sound rho _ _ _ _ (bdd_res_ok _ _ E)).
  - destruct (bdd_res (union FUEL_BDD d1 d2)) as [b|e] eqn:E; cbn [bind] in Hs; [|discriminate]. inversion Hs; subst s.
    split; [split; reflexivity|]. intros pt Hv Hp. point_cases pt Hv Hp. cbn.
    apply (union_sound rho _ _ _ _ (bdd_res_ok _ _ E)).
  - destruct (bdd_res (union FUEL_BDD d1 d2)) as [b|e] eqn:E; cbn [bind] in Hs; [|discriminate]. inversion Hs; subst s.
    split; [split; reflexivity|]. intros pt Hv Hp. point_cases pt Hv Hp. cbn.
    apply (union_sound rho _ _ _ _ (bdd_res_ok _ _ E)).
  - destruct (bdd_res (union FUEL_BDD d1 d2)) as [b|e] eqn:E; cbn [bind] in Hs; [|discriminate]. inversion Hs; subst s.
    split; [split; reflexivity|]. intros pt Hv Hp. point_cases pt Hv Hp. cbn.
    apply (union_sound rho _ _ _ _ (bdd_res_ok _ _ E)).
Qed.

Lemma proper_complement_spec p c :
  pfrag p = true -> proper_complement p = Ok c ->
  proper_tag c = proper_tag p /\ pfrag c = true /\
  forall pt, valid_point pt = true -> point_tag pt = proper_tag p -> pmem c pt = negb (pmem p pt).
Proof.
  intros F Hc.
  destruct p as [b1|a1 v1|a1 v1|d1|d1|a1 v1|a1 v1|d1|d1]; try discriminate F; cbn [proper_complement] in Hc.
  - inversion Hc; subst c. repeat split. intros pt Hv Hp. point_cases pt Hv Hp. cbn. destruct b1, x; reflexivity.
  - inversion Hc; subst c. repeat split; [exact F|]. intros pt Hv Hp. point_cases pt Hv Hp. cbn. unfold lits_mem. destruct a1; cbn; [reflexivity|rewrite negb_involutive; reflexivity].
  - inversion Hc; subst c. repeat split; [exact F|]. intros pt Hv Hp. point_cases pt Hv Hp. cbn. unfold lits_mem. destruct a1; cbn; [reflexivity|rewrite negb_involutive; reflexivity].
  - destruct (bdd_res (complement FUEL_BDD d1)) as [b|e] eqn:E; cbn [bind] in Hc; [|discriminate]. inversion Hc; subst c.
    repeat split. intros pt Hv Hp. point_cases pt Hv Hp. cbn. apply (complement_sound rho _ _ _ (bdd_res_ok _ _ E)).
  - destruct (bdd_res (complement FUEL_BDD d1)) as [b|e] eqn:E; cbn [bind] in Hc; [|discriminate]. inversion Hc; subst c.
    repeat split. intros pt Hv Hp. point_cases pt Hv Hp. cbn. apply (complement_sound rho _ _ _ (bdd_res_ok _ _ E)).
  - destruct (bdd_res (complement FUEL_BDD d1)) as [b|e] eqn:E; cbn [bind] in Hc; [|discriminate]. inversion Hc; subst c.
    repeat split. intros pt Hv Hp. point_cases pt Hv Hp. cbn. apply (complement_sound rho _ _ _ (bdd_res_ok _ _ E)).
  - destruct (bdd_res (complement FUEL_BDD d1)) as [b|e] eqn:E; cbn [bind] in Hc; [|discriminate]. inversion Hc; subst c.
    repeat split. intros pt Hv Hp. point_cases pt Hv Hp. cbn. apply (complement_sound rho _ _ _ (bdd_res_ok _ _ E)).
Qed.

Lemma proper_diff_spec p1 p2 s :
  pfrag p1 = true -> pfrag p2 = true -> proper_tag p1 = proper_tag p2 -> proper_diff p1 p2 = Ok s ->
  sub_ok (proper_tag p1) s /\
  forall pt, valid_point pt = true -> point_tag pt = proper_tag p1 -> smem s pt = pmem p1 pt && negb (pmem p2 pt).
Proof.
  intros F1 F2 Ht Hs.
  assert (Gen : (do c <- proper_complement p2; proper_intersect p1 c) = Ok s ->
                sub_ok (proper_tag p1) s /\
                forall pt, valid_point pt = true -> point_tag pt = proper_tag p1 -> smem s pt = pmem p1 pt && negb (pmem p2 pt)).
  { intros H. destruct (proper_complement p2) as [c|e] eqn:Ec; cbn [bind] in H; [|discriminate].
    destruct (proper_complement_spec p2 c F2 Ec) as (Tc & Fc & Mc).
    destruct (proper_intersect_spec p1 c s F1 Fc (eq_trans Ht (eq_sym Tc)) H) as (S1 & S2).
    split; [exact S1|]. intros pt Hv Hp. rewrite (S2 pt Hv Hp), (Mc pt Hv (eq_trans Hp Ht)). reflexivity. }
  destruct p1 as [b1|a1 v1|a1 v1|d1|d1|a1 v1|a1 v1|d1|d1], p2 as [b2|a2 v2|a2 v2|d2|d2|a2 v2|a2 v2|d2|d2];
    try discriminate Ht; try discriminate F1; try discriminate F2; cbn [proper_diff] in Hs; try (apply Gen; exact Hs).
  - inversion Hs; subst s. destruct (Bool.eqb b1 b2) eqn:E.
    + split; [reflexivity|]. intros pt Hv Hp. point_cases pt Hv Hp. cbn.
      apply Bool.eqb_prop in E. subst. destruct (Bool.eqb b2 x); reflexivity.
    + split; [split; reflexivity|]. intros pt Hv Hp. point_cases pt Hv Hp. cbn.
      destruct b1, b2, x; try reflexivity; discriminate E.
  - destruct (bdd_res (diff FUEL_BDD d1 d2)) as [b|e] eqn:E; cbn [bind] in Hs; [|discriminate]. inversion Hs; subst s.
    split; [split; reflexivity|]. intros pt Hv Hp. point_cases pt Hv Hp. cbn.
    apply (diff_sound rho _ _ _ _ (bdd_res_ok _ _ E)).
  - destruct (bdd_res (diff FUEL_BDD d1 d2)) as [b|e] eqn:E; cbn [bind] in Hs; [|discriminate]. inversion Hs; subst s.
    split; [split; reflexivity|]. intros pt Hv Hp. point_cases pt Hv Hp. cbn.
    apply (diff_sound rho _ _ _ _ (bdd_res_ok _ _ E)).
  - destruct (bdd_res (diff FUEL_BDD d1 d2)) as [b|e] eqn:E; cbn [bind] in Hs; [|discriminate]. inversion Hs; subst s.
    split; [split; reflexivity|]. intros pt Hv Hp. point_cases pt Hv Hp. cbn.
    apply (diff_sound rho _ _ _ _ (bdd_res_ok _ _ E)).
  - destruct (bdd_res (diff FUEL_BDD d1 d2)) as [b|e] eqn:E; cbn [bind] in Hs; [|discriminate]. inversion Hs; subst s.
    split; [split; reflexivity|]. intros pt Hv Hp. point_cases pt Hv Hp. cbn.
    apply (diff_sound rho _ _ _ _ (bdd_res_ok _ _ E)).
Qed.

(* ================================================================ bits *)
Lemma land_pow2 (x k : N) : N.land x (2 ^ k)%N = if N.testbit x k then (2 ^ k)%N else 0%N.
Proof.
  apply N.bits_inj. intros m. rewrite N.land_spec, N.pow2_bits_eqb.
  destruct (N.eqb_spec k m) as [->|Hne].
  - rewrite andb_true_r. destruct (N.testbit x m); [rewrite N.pow2_bits_true; reflexivity|rewrite N.bits_0; reflexivity].
  - rewrite andb_false_r. destruct (N.testbit x k); [rewrite (N.pow2_bits_false k m Hne); reflexivity|rewrite N.bits_0; reflexivity].
Qed.
Lemma has_bit_testbit x g : has_bit x (stag_code g) = N.testbit x (stag_shift g).
Proof.
  unfold has_bit, stag_code. rewrite N.shiftl_1_l, land_pow2.
  destruct (N.testbit x (stag_shift g)); [|reflexivity].
  destruct (N.eqb_spec (2 ^ stag_shift g)%N 0%N) as [E|_]; [|reflexivity].
  exfalso. revert E. apply N.pow_nonzero. discriminate.
Qed.
Lemma shift_lt_32 g : (stag_shift g < 32)%N.
Proof. destruct g; reflexivity. Qed.
Lemma has_bit_lor a b g : has_bit (N.lor a b) (stag_code g) = has_bit a (stag_code g) || has_bit b (stag_code g).
Proof. rewrite !has_bit_testbit. apply N.lor_spec. Qed.
Lemma has_bit_land a b g : has_bit (N.land a b) (stag_code g) = has_bit a (stag_code g) && has_bit b (stag_code g).
Proof. rewrite !has_bit_testbit. apply N.land_spec. Qed.
Lemma has_bit_not a g : has_bit (not_bits a) (stag_code g) = negb (has_bit a (stag_code g)).
Proof.
  unfold not_bits. rewrite !has_bit_testbit, N.lxor_spec, (N.ones_spec_low 32 _ (shift_lt_32 g)).
  destruct (N.testbit a (stag_shift g)); reflexivity.
Qed.
Lemma has_bit_code g h : has_bit (stag_code g) (stag_code h) = stag_eqb g h.
Proof. destruct g, h; reflexivity. Qed.
Lemma has_bit_0 g : has_bit 0%N (stag_code g) = false.
Proof. destruct g; reflexivity. Qed.
Lemma stag_eqb_eq g h : stag_eqb g h = true <-> g = h.
Proof. destruct g, h; cbn; split; try discriminate; try reflexivity; intros; reflexivity. Qed.
Lemma stag_eqb_refl g : stag_eqb g g = true.
Proof. destruct g; reflexivity. Qed.
Lemma stag_eqb_sym g h : stag_eqb g h = stag_eqb h g.
Proof. destruct g, h; reflexivity. Qed.

Lemma some_bits_acc l acc g :
  has_bit (fold_left (fun a p => N.lor a (proper_code p)) l acc) (stag_code g)
  = has_bit acc (stag_code g) || existsb (fun p => stag_eqb (proper_tag p) g) l.
Proof.
  revert acc. induction l as [|p l IH]; intros acc; cbn [fold_left existsb]; [rewrite orb_false_r; reflexivity|].
  rewrite IH. unfold proper_code. rewrite has_bit_lor, has_bit_code. rewrite orb_assoc. reflexivity.
Qed.
Lemma has_bit_some_bits l g : has_bit (some_bits l) (stag_code g) = existsb (fun p => stag_eqb (proper_tag p) g) l.
Proof. unfold some_bits. rewrite some_bits_acc, has_bit_0. reflexivity. Qed.

(* ================================================================ the merge of two tag-sorted vectors *)
Lemma pi_nil_nil bits : pair_iter bits [] [] = [].
Proof. reflexivity. Qed.
Lemma pi_nil_cons bits d2 l2 :
  pair_iter bits [] (d2 :: l2) = if has_bit bits (proper_code d2) then (None, Some d2) :: pair_iter bits [] l2 else pair_iter bits [] l2.
Proof. reflexivity. Qed.
Lemma pi_cons_nil bits d1 l1 :
  pair_iter bits (d1 :: l1) [] = if has_bit bits (proper_code d1) then (Some d1, None) :: pair_iter bits l1 [] else pair_iter bits l1 [].
Proof. reflexivity. Qed.
Lemma pi_cons_cons bits d1 l1 d2 l2 :
  pair_iter bits (d1 :: l1) (d2 :: l2) =
  match N.compare (proper_code d1) (proper_code d2) with
  | Eq => if has_bit bits (proper_code d1) then (Some d1, Some d2) :: pair_iter bits l1 l2 else pair_iter bits l1 l2
  | Lt => if has_bit bits (proper_code d1) then (Some d1, None) :: pair_iter bits l1 (d2 :: l2) else pair_iter bits l1 (d2 :: l2)
  | Gt => if has_bit bits (proper_code d2) then (None, Some d2) :: pair_iter bits (d1 :: l1) l2 else pair_iter bits (d1 :: l1) l2
  end.
Proof. reflexivity. Qed.

Section Merge.
  Variable tau : stag.
  Variable bits : N.
  Variable g : option proper * option proper -> bool.
  Definition has_tau (p : proper) : bool := stag_eqb (proper_tag p) tau.
  Definition lk (l : list proper) : option proper := find has_tau l.
  (* pairs that do not concern the tag tau contribute nothing *)
  Hypothesis g_local : forall o1 o2,
      (forall p, o1 = Some p -> has_tau p = false) -> (forall p, o2 = Some p -> has_tau p = false) -> g (o1, o2) = false.

  Lemma code_eq_tag p q : proper_code p = proper_code q -> proper_tag p = proper_tag q.
  Proof. unfold proper_code. destruct (proper_tag p), (proper_tag q); cbn; intros H; try reflexivity; discriminate H. Qed.
  Lemma code_lt_tag p q : (proper_code p < proper_code q)%N -> has_tau p = true -> has_tau q = false.
  Proof.
    unfold has_tau, proper_code. intros Hlt Hp. apply stag_eqb_eq in Hp. rewrite Hp in Hlt.
    destruct (stag_eqb (proper_tag q) tau) eqn:E; [|reflexivity]. apply stag_eqb_eq in E. rewrite E in Hlt.
    exfalso. revert Hlt. apply N.lt_irrefl.
  Qed.

  Lemma inc_cons p l : codes_increasing (p :: l) = true ->
    (forall q, In q l -> (proper_code p < proper_code q)%N) /\ codes_increasing l = true.
  Proof.
    cbn [codes_increasing]. intros H. apply andb_prop in H as [H1 H2]. split; [|exact H2].
    intros q Hq. rewrite forallb_forall in H1. apply N.ltb_lt. apply H1. exact Hq.
  Qed.
  (* every element of l lies above a proper of tag tau (or above something above it): tau does not occur in l *)
  Lemma lk_none_above p l : has_tau p = true -> (forall q, In q l -> (proper_code p < proper_code q)%N) -> lk l = None.
  Proof.
    intros Hp Hl. unfold lk. induction l as [|q l IH]; [reflexivity|]. cbn [find].
    rewrite (code_lt_tag p q (Hl q (or_introl eq_refl)) Hp). apply IH. intros r Hr. apply Hl. right. exact Hr.
  Qed.
  Lemma lk_none_above2 p p0 l : has_tau p = true -> (proper_code p < proper_code p0)%N ->
    (forall q, In q l -> (proper_code p0 < proper_code q)%N) -> lk (p0 :: l) = None.
  Proof.
    intros Hp Hlt Hl. unfold lk. cbn [find]. rewrite (code_lt_tag p p0 Hlt Hp).
    apply (lk_none_above p l Hp). intros q Hq. eapply N.lt_trans; [exact Hlt|apply Hl; exact Hq].
  Qed.

  Notation G o1 o2 := (g (o1, o2)).
  Lemma g_none : G None None = false.
  Proof. apply g_local; intros p H; discriminate H. Qed.
  Lemma g_other_l p o2 : has_tau p = false -> (forall q, o2 = Some q -> has_tau q = false) -> G (Some p) o2 = false.
  Proof. intros H1 H2. apply g_local; [intros q E; inversion E; subst; exact H1|exact H2]. Qed.

  Lemma merge_nil l2 : codes_increasing l2 = true ->
    existsb g (pair_iter bits [] l2) = has_bit bits (stag_code tau) && G None (lk l2).
  Proof.
    induction l2 as [|d2 l2 IH]; intros Hinc.
    - rewrite pi_nil_nil. cbn. rewrite g_none, andb_false_r. reflexivity.
    - destruct (inc_cons _ _ Hinc) as [Hab Hinc']. rewrite pi_nil_cons. unfold lk. cbn [find]. fold (lk l2).
      destruct (has_tau d2) eqn:Ed.
      + assert (Hc : proper_code d2 = stag_code tau) by (unfold proper_code; apply stag_eqb_eq in Ed; rewrite Ed; reflexivity).
        rewrite Hc. destruct (has_bit bits (stag_code tau)); cbn [existsb andb].
        * rewrite (IH Hinc'), (lk_none_above d2 l2 Ed Hab), g_none, andb_false_r, orb_false_r. reflexivity.
        * rewrite (IH Hinc'). reflexivity.
      + assert (Hg : G None (Some d2) = false) by (apply g_local; [intros p E; discriminate E|intros p E; inversion E; subst; exact Ed]).
        destruct (has_bit bits (proper_code d2)); cbn [existsb]; rewrite ?Hg; apply (IH Hinc').
  Qed.

  Lemma merge_nil_r l1 : codes_increasing l1 = true ->
    existsb g (pair_iter bits l1 []) = has_bit bits (stag_code tau) && G (lk l1) None.
  Proof.
    induction l1 as [|d1 l1 IH]; intros Hinc.
    - rewrite pi_nil_nil. cbn. rewrite g_none, andb_false_r. reflexivity.
    - destruct (inc_cons _ _ Hinc) as [Hab Hinc']. rewrite pi_cons_nil. unfold lk. cbn [find]. fold (lk l1).
      destruct (has_tau d1) eqn:Ed.
      + assert (Hc : proper_code d1 = stag_code tau) by (unfold proper_code; apply stag_eqb_eq in Ed; rewrite Ed; reflexivity).
        rewrite Hc. destruct (has_bit bits (stag_code tau)); cbn [existsb andb].
        * rewrite (IH Hinc'), (lk_none_above d1 l1 Ed Hab), g_none, andb_false_r, orb_false_r. reflexivity.
        * rewrite (IH Hinc'). reflexivity.
      + assert (Hg : G (Some d1) None = false) by (apply g_other_l; [exact Ed|intros q E; discriminate E]).
        destruct (has_bit bits (proper_code d1)); cbn [existsb]; rewrite ?Hg; apply (IH Hinc').
  Qed.

  Lemma merge_spec l1 : forall l2, codes_increasing l1 = true -> codes_increasing l2 = true ->
    existsb g (pair_iter bits l1 l2) = has_bit bits (stag_code tau) && G (lk l1) (lk l2).
  Proof.
    induction l1 as [|d1 l1 IH1]; intros l2 H1 H2; [apply merge_nil; exact H2|].
    destruct (inc_cons _ _ H1) as [Hab1 Hinc1].
    induction l2 as [|d2 l2 IH2]; [apply merge_nil_r; exact H1|].
    destruct (inc_cons _ _ H2) as [Hab2 Hinc2].
    rewrite pi_cons_cons.
    destruct (N.compare_spec (proper_code d1) (proper_code d2)) as [Heq|Hlt|Hgt].
    - (* same tag *)
      pose proof (code_eq_tag _ _ Heq) as Htag.
      assert (Hsame : has_tau d2 = has_tau d1) by (unfold has_tau; rewrite Htag; reflexivity).
      unfold lk. cbn [find]. fold (lk l1) (lk l2). rewrite Hsame.
      destruct (has_tau d1) eqn:Ed.
      + assert (Hc : proper_code d1 = stag_code tau) by (unfold proper_code; apply stag_eqb_eq in Ed; rewrite Ed; reflexivity).
        rewrite Hc.
        assert (L1 : lk l1 = None) by (apply (lk_none_above d1); [exact Ed|exact Hab1]).
        assert (L2 : lk l2 = None) by (apply (lk_none_above d2); [exact Hsame|exact Hab2]).
        destruct (has_bit bits (stag_code tau)); cbn [existsb andb]; rewrite (IH1 l2 Hinc1 Hinc2), L1, L2, g_none, andb_false_r, ?orb_false_r; reflexivity.
      + assert (Hg : G (Some d1) (Some d2) = false).
        { apply g_other_l; [exact Ed|]. intros q E. inversion E; subst. exact Hsame. }
        destruct (has_bit bits (proper_code d1)); cbn [existsb]; rewrite ?Hg; apply (IH1 l2 Hinc1 Hinc2).
    - (* d1 comes first *)
      unfold lk at 1. cbn [find]. fold (lk l1).
      destruct (has_tau d1) eqn:Ed.
      + assert (Hc : proper_code d1 = stag_code tau) by (unfold proper_code; apply stag_eqb_eq in Ed; rewrite Ed; reflexivity).
        rewrite Hc.
        assert (L1 : lk l1 = None) by (apply (lk_none_above d1); assumption).
        assert (L2 : lk (d2 :: l2) = None) by (apply (lk_none_above2 d1); assumption).
        destruct (has_bit bits (stag_code tau)); cbn [existsb andb]; rewrite (IH1 (d2 :: l2) Hinc1 H2), L1, L2, g_none, andb_false_r, ?orb_false_r; reflexivity.
      + assert (Hg : G (Some d1) None = false) by (apply g_other_l; [exact Ed|intros q E; discriminate E]).
        destruct (has_bit bits (proper_code d1)); cbn [existsb]; rewrite ?Hg; apply (IH1 (d2 :: l2) Hinc1 H2).
    - (* d2 comes first *)
      unfold lk at 2. cbn [find]. fold (lk l2).
      destruct (has_tau d2) eqn:Ed.
      + assert (Hc : proper_code d2 = stag_code tau) by (unfold proper_code; apply stag_eqb_eq in Ed; rewrite Ed; reflexivity).
        rewrite Hc.
        assert (L2 : lk l2 = None) by (apply (lk_none_above d2); assumption).
        assert (L1 : lk (d1 :: l1) = None) by (apply (lk_none_above2 d2); assumption).
        destruct (has_bit bits (stag_code tau)); cbn [existsb andb]; rewrite (IH2 Hinc2), L1, L2, g_none, andb_false_r, ?orb_false_r; reflexivity.
      + assert (Hg : G None (Some d2) = false) by (apply g_local; [intros p E; discriminate E|intros p E; inversion E; subst; exact Ed]).
        destruct (has_bit bits (proper_code d2)); cbn [existsb]; rewrite ?Hg; apply (IH2 Hinc2).
  Qed.
End Merge.

(* ================================================================ collecting the per-tag results *)
Definition contrib (add_true : bool) (o : res (option subtype)) (pt : point) : bool :=
  match o with
  | Ok (Some (STrue t)) => add_true && stag_eqb t (point_tag pt)
  | Ok (Some (SProper p)) => pmem p pt
  | _ => false
  end.

Definition collect_step (f : option proper * option proper -> res (option subtype)) (add_true : bool)
           (acc : res (N * list proper)) (pr : option proper * option proper) : res (N * list proper) :=
  do st <- acc;
  do o <- f pr;
  match o with
  | Some (STrue t) => Ok (if add_true then (N.lor (fst st) (stag_code t), snd st) else st)
  | Some (SProper p) => Ok (fst st, snd st ++ [p])
  | _ => Ok st
  end.

Lemma fold_throw f add_true ps e : fold_left (collect_step f add_true) ps (Throw e) = Throw e.
Proof. induction ps as [|p ps IH]; [reflexivity|exact IH]. Qed.

Lemma collect_fold f add_true pt ps : forall a0 d0 a d,
  fold_left (collect_step f add_true) ps (Ok (a0, d0)) = Ok (a, d) ->
  has_bit a (stag_code (point_tag pt)) || existsb (fun p => pmem p pt) d
  = (has_bit a0 (stag_code (point_tag pt)) || existsb (fun p => pmem p pt) d0)
    || existsb (fun pr => contrib add_true (f pr) pt) ps.
Proof.
  induction ps as [|pr ps IH]; intros a0 d0 a d H; cbn [fold_left existsb] in *.
  - inversion H; subst. rewrite orb_false_r. reflexivity.
  - unfold collect_step at 2 in H. cbn [bind] in H.
    destruct (f pr) as [[[g|g|p]|]|e] eqn:Ef; cbn [bind fst snd] in H; try (rewrite fold_throw in H; discriminate H).
    + rewrite (IH _ _ _ _ H). cbn [contrib]. rewrite orb_false_l. reflexivity.
    + destruct add_true.
      * rewrite (IH _ _ _ _ H). cbn [contrib andb]. rewrite has_bit_lor, has_bit_code.
        destruct (has_bit a0 _), (existsb _ d0), (stag_eqb g _), (existsb _ ps); reflexivity.
      * rewrite (IH _ _ _ _ H). cbn [contrib andb]. rewrite orb_false_l. reflexivity.
    + rewrite (IH _ _ _ _ H). cbn [contrib]. rewrite existsb_app. cbn [existsb]. rewrite orb_false_r.
      destruct (has_bit a0 _), (existsb _ d0), (pmem p pt), (existsb _ ps); reflexivity.
    + rewrite (IH _ _ _ _ H). cbn [contrib]. rewrite orb_false_l. reflexivity.
Qed.

Lemma collect_mem ps f all0 add_true t pt :
  sem_collect ps f all0 add_true = Ok t ->
  mem t pt = has_bit all0 (stag_code (point_tag pt)) || existsb (fun pr => contrib add_true (f pr) pt) ps.
Proof.
  unfold sem_collect. intros H.
  change (fold_left _ ps (Ok (all0, []))) with (fold_left (collect_step f add_true) ps (Ok (all0, []))) in H.
  destruct (fold_left (collect_step f add_true) ps (Ok (all0, []))) as [[a d]|e] eqn:E; cbn [bind] in H; [|discriminate].
  inversion H; subst t. unfold mem. cbn [st_all st_data fst snd].
  rewrite (collect_fold f add_true pt ps _ _ _ _ E). cbn [existsb]. rewrite orb_false_r. reflexivity.
Qed.

(* ================================================================ tags of results, for arbitrary proper subtypes *)
Definition subtype_tag (s : subtype) : stag := match s with SFalse t | STrue t => t | SProper p => proper_tag p end.

Lemma lit_subtype_tag {K} (mk : bool -> list K -> proper) t a v :
  (forall a' v', proper_tag (mk a' v') = t) -> subtype_tag (lit_subtype mk t a v) = t.
Proof. intros H. destruct v; [destruct a; reflexivity|apply H]. Qed.

Lemma lits_intersect_tag {K} is_sub eqb leb (mk : bool -> list K -> proper) t a1 v1 a2 v2 s :
  (forall a' v', proper_tag (mk a' v') = t) -> lits_intersect is_sub eqb leb mk t a1 v1 a2 v2 = Ok s -> subtype_tag s = t.
Proof.
  intros Hmk. unfold lits_intersect. destruct a1, a2;
    match goal with |- (do v <- ?X; _) = _ -> _ => destruct X; cbn [bind]; [|discriminate] end;
    intros H; inversion H; apply lit_subtype_tag; exact Hmk.
Qed.
Lemma lits_union_tag {K} is_sub eqb leb (mk : bool -> list K -> proper) t a1 v1 a2 v2 s :
  (forall a' v', proper_tag (mk a' v') = t) -> lits_union is_sub eqb leb mk t a1 v1 a2 v2 = Ok s -> subtype_tag s = t.
Proof.
  intros Hmk. unfold lits_union. destruct a1, a2;
    match goal with |- (do v <- ?X; _) = _ -> _ => destruct X; cbn [bind]; [|discriminate] end;
    intros H; inversion H; apply lit_subtype_tag; exact Hmk.
Qed.

Ltac struct_tag H :=
  match type of H with (do b <- ?X; _) = _ => destruct X; cbn [bind] in H; [|discriminate H]; inversion H; split; reflexivity end.

Lemma proper_intersect_tag p1 p2 s : proper_intersect p1 p2 = Ok s -> subtype_tag s = proper_tag p1 /\ proper_tag p2 = proper_tag p1.
Proof.
  destruct p1, p2; cbn [proper_intersect]; intros H; try discriminate H; try (struct_tag H).
  - inversion H. destruct (Bool.eqb b b0); split; reflexivity.
  - split; [|reflexivity]. eapply lits_intersect_tag; [|exact H]. reflexivity.
  - split; [|reflexivity]. eapply lits_intersect_tag; [|exact H]. reflexivity.
  - split; [|reflexivity]. eapply lits_intersect_tag; [|exact H]. reflexivity.
  - split; [|reflexivity]. eapply lits_intersect_tag; [|exact H]. reflexivity.
Qed.
Lemma proper_union_tag p1 p2 s : proper_union p1 p2 = Ok s -> subtype_tag s = proper_tag p1 /\ proper_tag p2 = proper_tag p1.
Proof.
  destruct p1, p2; cbn [proper_union]; intros H; try discriminate H; try (struct_tag H).
  - inversion H. destruct (Bool.eqb b b0); split; reflexivity.
  - split; [|reflexivity]. eapply lits_union_tag; [|exact H]. reflexivity.
  - split; [|reflexivity]. eapply lits_union_tag; [|exact H]. reflexivity.
  - split; [|reflexivity]. eapply lits_union_tag; [|exact H]. reflexivity.
  - split; [|reflexivity]. eapply lits_union_tag; [|exact H]. reflexivity.
Qed.
Lemma proper_complement_tag p c : proper_complement p = Ok c -> proper_tag c = proper_tag p.
Proof.
  destruct p; cbn [proper_complement]; intros H; try (inversion H; reflexivity);
    match type of H with (do b <- ?X; _) = _ => destruct X; cbn [bind] in H; [|discriminate H]; inversion H; reflexivity end.
Qed.
Lemma proper_diff_tag p1 p2 s : proper_diff p1 p2 = Ok s -> subtype_tag s = proper_tag p1 /\ proper_tag p2 = proper_tag p1.
Proof.
  assert (Gen : (do c <- proper_complement p2; proper_intersect p1 c) = Ok s -> subtype_tag s = proper_tag p1 /\ proper_tag p2 = proper_tag p1).
  { intros H. destruct (proper_complement p2) as [c|] eqn:Ec; cbn [bind] in H; [|discriminate].
    destruct (proper_intersect_tag _ _ _ H) as [A B]. split; [exact A|]. rewrite <- (proper_complement_tag _ _ Ec). exact B. }
  destruct p1, p2; cbn [proper_diff]; intros H; try (apply Gen; exact H); try (struct_tag H).
  inversion H. destruct (Bool.eqb b b0); split; reflexivity.
Qed.

Lemma smem_other_tag s pt : subtype_tag s <> point_tag pt -> smem s pt = false.
Proof.
  destruct s as [t|t|p]; cbn [smem subtype_tag]; intros H; [reflexivity| |].
  - destruct (stag_eqb t (point_tag pt)) eqn:E; [apply stag_eqb_eq in E; contradiction|reflexivity].
  - destruct (pmem p pt) eqn:E; [apply pmem_tag in E; contradiction|reflexivity].
Qed.
Lemma contrib_smem o s pt : o = Ok (Some s) -> contrib true o pt = smem s pt.
Proof. intros ->. destruct s; reflexivity. Qed.

(* ================================================================ semantic types *)
Definition wf2 (t : semtype) : bool :=
  codes_increasing (st_data t) && forallb pfrag (st_data t)
  && forallb (fun p => negb (has_bit (st_all t) (proper_code p))) (st_data t).

Lemma has_tau_code tau p : has_tau tau p = true -> proper_code p = stag_code tau.
Proof. unfold has_tau, proper_code. intros H. apply stag_eqb_eq in H. rewrite H. reflexivity. Qed.
Lemma pmem_has_tau p pt : pmem p pt = true -> has_tau (point_tag pt) p = true.
Proof. intros H. unfold has_tau. rewrite (pmem_tag _ _ H). apply stag_eqb_refl. Qed.
Lemma lk_some tau l p : lk tau l = Some p -> In p l /\ has_tau tau p = true.
Proof. unfold lk. intros H. apply find_some in H. exact H. Qed.

Lemma existsb_pmem_lk pt l :
  codes_increasing l = true ->
  existsb (fun p => pmem p pt) l = match lk (point_tag pt) l with Some p => pmem p pt | None => false end.
Proof.
  induction l as [|p l IH]; intros Hinc; [reflexivity|].
  destruct (inc_cons _ _ Hinc) as [Hab Hinc']. cbn [existsb]. unfold lk. cbn [find]. fold (lk (point_tag pt) l).
  destruct (has_tau (point_tag pt) p) eqn:E.
  - assert (R : existsb (fun q => pmem q pt) l = false).
    { rewrite (IH Hinc'). rewrite (lk_none_above (point_tag pt) p l E Hab). reflexivity. }
    rewrite R, orb_false_r. reflexivity.
  - destruct (pmem p pt) eqn:Ep; [apply pmem_has_tau in Ep; congruence|]. cbn [orb]. apply IH. exact Hinc'.
Qed.

Lemma mem_lookup t pt : wf2 t = true ->
  mem t pt = has_bit (st_all t) (stag_code (point_tag pt))
             || match lk (point_tag pt) (st_data t) with Some p => pmem p pt | None => false end.
Proof.
  unfold wf2. intros H. apply andb_prop in H as [H _]. apply andb_prop in H as [H _].
  unfold mem. rewrite (existsb_pmem_lk pt _ H). reflexivity.
Qed.

Lemma some_bits_lk tau l : has_bit (some_bits l) (stag_code tau) = match lk tau l with Some _ => true | None => false end.
Proof.
  rewrite has_bit_some_bits. unfold lk. induction l as [|p l IH]; [reflexivity|]. cbn [existsb find]. fold (has_tau tau p).
  destruct (has_tau tau p); [reflexivity|exact IH].
Qed.

(* facts a well-formed type gives about the proper found for a tag *)
Lemma wf2_lk t tau p : wf2 t = true -> lk tau (st_data t) = Some p ->
  pfrag p = true /\ proper_tag p = tau /\ has_bit (st_all t) (stag_code tau) = false.
Proof.
  unfold wf2. intros H Hl. apply andb_prop in H as [H H3]. apply andb_prop in H as [_ H2].
  destruct (lk_some _ _ _ Hl) as [Hin Ht].
  rewrite forallb_forall in H2, H3. repeat split.
  - apply H2. exact Hin.
  - apply stag_eqb_eq. exact Ht.
  - specialize (H3 p Hin). rewrite (has_tau_code _ _ Ht) in H3. apply negb_true_iff in H3. exact H3.
Qed.
