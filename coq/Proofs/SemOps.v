(* Proofs/SemOps.v — SemTypeOps::union / intersect / diff are the set operations on what a semantic type denotes (mem),
   for every interpretation of the structural atoms; is_empty is emptiness on the basic fragment; hence
   is_subtype = inclusion there. *)
From Beff Require Import Model.SemSpec Model.Subtype Proofs.Bdd Proofs.SemType Proofs.ResLemmas.
From Coq Require Import Sorting.Permutation.

(* ================================================================ equality tests *)
Lemma list_eqb_spec {A} (eqb : A -> A -> bool) (l1 l2 : list A) :
  (forall a b, In a l1 -> (eqb a b = true <-> a = b)) -> (list_eqb eqb l1 l2 = true <-> l1 = l2).
Proof.
  revert l2. induction l1 as [|x l1 IH]; intros [|y l2] H; cbn.
  - tauto.
  - split; discriminate.
  - split; discriminate.
  - rewrite andb_true_iff, (H x y (or_introl eq_refl)), (IH l2 (fun a b Ha => H a b (or_intror Ha))).
    split; [intros [-> ->]; reflexivity|intros E; inversion E; auto].
Qed.

Fixpoint tpl_item_eqb_spec (a : tpl_item) : forall b, tpl_item_eqb a b = true <-> a = b.
Proof.
  destruct a as [| | |s|vs]; intros [| | |s'|vs']; cbn; try (split; discriminate); try tauto.
  - rewrite String.eqb_eq. split; [intros ->; reflexivity|intros E; inversion E; reflexivity].
  - assert (H : list_eqb tpl_item_eqb vs vs' = true <-> vs = vs').
    { revert vs'. induction vs as [|x vs IH]; intros [|y vs']; cbn; [tauto|split; discriminate|split; discriminate|].
      rewrite andb_true_iff, (tpl_item_eqb_spec x y), (IH vs'). split; [intros [-> ->]; reflexivity|intros E; inversion E; auto]. }
    rewrite H. split; [intros ->; reflexivity|intros E; inversion E; reflexivity].
Qed.

Lemma str_list_eqb_spec (l1 l2 : list string) : list_eqb String.eqb l1 l2 = true <-> l1 = l2.
Proof. apply list_eqb_spec. intros a b _. apply String.eqb_eq. Qed.

Lemma numval_eqb_spec a b : numval_eqb a b = true <-> a = b.
Proof.
  destruct a as [x|f a1], b as [y|g a2]; cbn; try (split; discriminate).
  - rewrite Z.eqb_eq. split; [intros ->; reflexivity|intros E; inversion E; reflexivity].
  - rewrite andb_true_iff, String.eqb_eq, str_list_eqb_spec. split; [intros [-> ->]; reflexivity|intros E; inversion E; auto].
Qed.
Lemma strval_eqb_spec a b : strval_eqb a b = true <-> a = b.
Proof.
  destruct a as [f a1|x], b as [g a2|y]; cbn; try (split; discriminate).
  - rewrite andb_true_iff, String.eqb_eq, str_list_eqb_spec. split; [intros [-> ->]; reflexivity|intros E; inversion E; auto].
  - rewrite (list_eqb_spec tpl_item_eqb x y (fun a b _ => tpl_item_eqb_spec a b)).
    split; [intros ->; reflexivity|intros E; inversion E; reflexivity].
Qed.
Lemma numval_is_sub_lit a b : numval_lit a = true -> numval_lit b = true -> numval_is_sub a b = Ok (numval_eqb a b).
Proof. destruct a, b; cbn; try discriminate; reflexivity. Qed.
Lemma strval_is_sub_lit a b : strval_lit a = true -> strval_lit b = true -> strval_is_sub a b = Ok (strval_eqb a b).
Proof.
  destruct a as [|[|[| | |s|] [|]]], b as [|[|[| | |s'|] [|]]]; cbn; try discriminate. intros _ _.
  rewrite andb_true_r. reflexivity.
Qed.
