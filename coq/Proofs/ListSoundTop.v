(* ListSoundTop.v — list_is_empty is sound: when it answers "empty", no list value is a member; hence "assignable" answers
   are sound for types whose structural components are lists (arrays, tuples with and without rest), of any nesting,
   as long as they are not recursive (the fuel bounds the nesting; the memo table of the implementation only cuts cycles). *)
From Beff Require Import Model.ListSpec Proofs.ResLemmas Proofs.SemOps Proofs.SemWf Proofs.ListSound.

Lemma bdd_every_sound pred : forall b pos neg, bdd_every pred b pos neg = Ok true ->
  forall rho, (forall a, In a pos -> rho a = true) -> (forall a, In a neg -> rho a = false) -> eval rho b = true ->
  exists pos' neg', pred pos' neg' = Ok true /\ (forall a, In a pos' -> rho a = true) /\ (forall a, In a neg' -> rho a = false).
Proof.
  induction b as [| |a l IHl m IHm r IHr]; intros pos neg H rho Hp Hn He; cbn [bdd_every eval] in *.
  - exists pos, neg. auto.
  - discriminate He.
  - destruct (bdd_every pred r pos (a :: neg)) as [x|e] eqn:Er; cbn [bind] in H; [|discriminate].
    destruct (bdd_every pred m pos neg) as [y|e] eqn:Em; cbn [bind] in H; [|discriminate].
    destruct (bdd_every pred l (a :: pos) neg) as [z|e] eqn:El; cbn [bind] in H; [|discriminate].
    inversion H as [Hxyz]. apply andb_prop in Hxyz as [Hx Hyz]. apply andb_prop in Hyz as [Hy Hz]. subst x y z.
    apply orb_prop in He as [He|He]; [apply orb_prop in He as [He|He]|].
    + apply andb_prop in He as [Ha Hl]. apply (IHl _ _ El rho); auto. intros a' [<-|Hin]; auto.
    + apply (IHm _ _ Em rho); auto.
    + apply andb_prop in He as [Ha Hr]. apply Bool.negb_true_iff in Ha. apply (IHr _ _ Er rho); auto. intros a' [<-|Hin]; auto.
Qed.

Section Top.
  Variable tbl : ltable.
  Variable other_empty : proper -> res bool.
  Variable other_real : point -> Prop.
  (* the oracle for the components that are not modelled here is sound on the points values realise *)
  Hypothesis other_sound : forall p pt, other_empty p = Ok true -> other_real pt -> pmem p pt = false.
  (* the element types of every list atom are well-formed *)
  Hypothesis tbl_good : forall i la, lookup_latom i tbl = Some la ->
    Forall (fun t => wf2 t = true) (la_prefix la) /\ wf2 (la_items la) = true.

  Inductive lval_ok : lval -> Prop :=
  | OkPt pt : valid_point pt = true -> point_tag pt <> TgList -> other_real pt -> lval_ok (LPt pt)
  | OkList xs : Forall lval_ok xs -> lval_ok (LList xs).

  Definition V := { v : lval | lval_ok v }.
  Definition vmV (v : V) (t : semtype) : bool := vmem tbl (proj1_sig v) t.
  Definition good (t : semtype) : Prop := wf2 t = true.

  Definition point_of (v : lval) : point :=
    match v with LPt pt => pt | LList xs => PtStruct TgList (rho_of tbl xs) end.
  Lemma vmem_point v t : vmem tbl v t = mem t (point_of v).
  Proof. destruct v; reflexivity. Qed.
  Lemma point_of_valid v : lval_ok v -> valid_point (point_of v) = true.
  Proof. intros H. inversion H; subst; [assumption|reflexivity]. Qed.

  Lemma vm_never v : vmV v sem_never = false.
  Proof. unfold vmV. rewrite vmem_point. unfold mem, sem_never. cbn [st_all st_data existsb]. rewrite has_bit_0. reflexivity. Qed.
  Lemma vm_unknown v : vmV v sem_unknown = true.
  Proof. unfold vmV. rewrite vmem_point. unfold mem, sem_unknown. cbn [st_all st_data existsb]. rewrite val_has_every_tag. reflexivity. Qed.
  Lemma diff_ok a b d : good a -> good b -> sem_diff a b = Ok d -> good d /\ forall v, vmV v d = vmV v a && negb (vmV v b).
  Proof.
    intros Ga Gb Hd. split; [exact (wf2_diff a b d Ga Gb Hd)|]. intros [v Hv]. unfold vmV. cbn [proj1_sig]. rewrite !vmem_point.
    apply sem_diff_mem; auto. apply point_of_valid. exact Hv.
  Qed.
  Lemma inter_ok a b d : good a -> good b -> sem_intersect a b = Ok d -> good d /\ forall v, vmV v d = vmV v a && vmV v b.
  Proof.
    intros Ga Gb Hd. split; [exact (wf2_intersect a b d Ga Gb Hd)|]. intros [v Hv]. unfold vmV. cbn [proj1_sig]. rewrite !vmem_point.
    apply sem_intersect_mem; auto. apply point_of_valid. exact Hv.
  Qed.

  (* lists of ok values as lists over V *)
  Fixpoint to_V (xs : list lval) : Forall lval_ok xs -> list V :=
    match xs with
    | [] => fun _ => []
    | x :: xs' => fun H => exist _ x (Forall_inv H) :: to_V xs' (Forall_inv_tail H)
    end.
  Lemma in_shape_to_V xs (H : Forall lval_ok xs) : forall prefix items,
    in_shape vmV (to_V xs H) prefix items = in_shape (vmem tbl) xs prefix items.
  Proof.
    induction xs as [|x xs IH]; intros prefix items; destruct prefix as [|p prefix]; cbn [to_V in_shape forallb]; try reflexivity.
    - unfold vmV at 1. cbn [proj1_sig]. f_equal. specialize (IH (Forall_inv_tail H) [] items).
      assert (E : forall (W : Type) (vmw : W -> semtype -> bool) l, in_shape vmw l [] items = forallb (fun x => vmw x items) l)
        by (intros W vmw l; destruct l; reflexivity).
      rewrite !E in IH. exact IH.
    - unfold vmV at 1. cbn [proj1_sig]. f_equal. apply IH.
  Qed.

  Definition struct_empty (f : nat) (p : proper) : res bool :=
    match p with PList b => list_is_empty tbl other_empty f b | _ => other_empty p end.

  (* soundness of the emptiness of element types, from the soundness of list emptiness at the same fuel *)
  Lemma elem_empty_sound f :
    (forall b, list_is_empty tbl other_empty f b = Ok true -> forall xs, Forall lval_ok xs -> eval (rho_of tbl xs) b = false) ->
    forall t, good t -> sem_is_empty (struct_empty f) t = Ok true -> forall v : V, vmV v t = false.
  Proof.
    intros HL t _ He [v Hv]. unfold vmV. cbn [proj1_sig]. rewrite vmem_point. unfold sem_is_empty in He.
    destruct (N.eqb (st_all t) 0) eqn:Ea; cbn [negb] in He; [|discriminate]. apply N.eqb_eq in Ea.
    unfold mem. rewrite Ea, has_bit_0. cbn [orb].
    destruct (existsb (fun p => pmem p (point_of v)) (st_data t)) eqn:Ex; [|reflexivity]. exfalso.
    apply existsb_exists in Ex as [p [Hin Hm]]. pose proof (forall_res_true_inv _ _ He p Hin) as Hpe.
    destruct p; cbn [proper_is_empty struct_empty] in Hpe; try discriminate Hpe.
    - (* PMapping *) inversion Hv as [pt Hval Htag Hor|xs Hxs]; subst; cbn [point_of] in Hm; [rewrite (other_sound _ _ Hpe Hor) in Hm; discriminate|cbn in Hm; discriminate Hm].
    - (* PList *) inversion Hv as [pt Hval Htag Hor|xs Hxs]; subst; cbn [point_of] in Hm.
      + destruct pt as [| | | | |u rho]; try discriminate Hm. destruct u; try discriminate Hm. apply Htag. reflexivity.
      + cbn [pmem] in Hm. rewrite (HL b Hpe xs Hxs) in Hm. discriminate.
    - (* PMap *) inversion Hv as [pt Hval Htag Hor|xs Hxs]; subst; cbn [point_of] in Hm; [rewrite (other_sound _ _ Hpe Hor) in Hm; discriminate|cbn in Hm; discriminate Hm].
    - (* PSet *) inversion Hv as [pt Hval Htag Hor|xs Hxs]; subst; cbn [point_of] in Hm; [rewrite (other_sound _ _ Hpe Hor) in Hm; discriminate|cbn in Hm; discriminate Hm].
  Qed.

  Lemma latoms_of_in l : forall ps, latoms_of tbl l = Ok ps ->
    forall la, In la ps -> exists a, In a l /\ ak a = AList /\ lookup_latom (ai a) tbl = Some la.
  Proof.
    unfold latoms_of. induction l as [|a l IH]; intros ps H la Hin; cbn [map_res] in H; [inversion H; subst; contradiction|].
    destruct (ak a) eqn:Ek; cbn [bind] in H; try discriminate.
    destruct (lookup_latom (ai a) tbl) as [la0|] eqn:El; cbn [bind] in H; [|discriminate].
    match type of H with (do ys <- ?X; _) = _ => destruct X as [ps'|e] eqn:Er end; cbn [bind] in H; [|discriminate].
    inversion H; subst ps. destruct Hin as [<-|Hin].
    - exists a. split; [left; reflexivity|]. split; [exact Ek|exact El].
    - destruct (IH ps' eq_refl la Hin) as (a' & Ha' & Hk & Hl). exists a'. split; [right; exact Ha'|]. split; [exact Hk|exact Hl].
  Qed.

  Theorem list_is_empty_sound : forall f b, list_is_empty tbl other_empty f b = Ok true ->
    forall xs, Forall lval_ok xs -> eval (rho_of tbl xs) b = false.
  Proof.
    induction f as [|f IH]; intros b H xs Hxs; [discriminate H|]. cbn [list_is_empty] in H.
    destruct (eval (rho_of tbl xs) b) eqn:Ev; [|reflexivity]. exfalso.
    destruct (bdd_every_sound _ _ _ _ H (rho_of tbl xs) (fun a (F : In a []) => match F with end) (fun a (F : In a []) => match F with end) Ev)
      as (pos & neg & Hpred & Hpos & Hneg).
    destruct (latoms_of tbl pos) as [ps|e] eqn:Eps; cbn [bind] in Hpred; [|discriminate].
    destruct (latoms_of tbl neg) as [ns|e] eqn:Ens; cbn [bind] in Hpred; [|discriminate].
    change (sem_is_empty (fun p => match p with PList b' => list_is_empty tbl other_empty f b' | _ => other_empty p end))
      with (sem_is_empty (struct_empty f)) in Hpred.
    assert (Gat : forall l ls, latoms_of tbl l = Ok ls -> Forall (good_atom good) ls).
    { intros l ls Hl. apply Forall_forall. intros la Hla. destruct (latoms_of_in l ls Hl la Hla) as (a & _ & _ & Hlk).
      destruct (tbl_good _ _ Hlk) as [G1 G2]. split; [exact G1|exact G2]. }
    assert (Hshape : forall la, In la ps -> Shape V vmV (to_V xs Hxs) (la_prefix la) (la_items la)).
    { intros la Hla. destruct (latoms_of_in pos ps Eps la Hla) as (a & Ha & Hk & Hlk).
      apply in_shape_iff. rewrite in_shape_to_V. pose proof (Hpos a Ha) as Hr. unfold rho_of in Hr. rewrite Hk, Hlk in Hr. exact Hr. }
    destruct (list_formula_is_empty_sound V vmV good (sem_is_empty (struct_empty f)) eq_refl vm_never diff_ok inter_ok
                (elem_empty_sound f (IH)) eq_refl vm_unknown ps ns (Gat _ _ Eps) (Gat _ _ Ens) Hpred (to_V xs Hxs))
      as (n & Hn & Hsn).
    - apply Forall_forall. exact Hshape.
    - destruct (latoms_of_in neg ns Ens n Hn) as (a & Ha & Hk & Hlk).
      apply in_shape_iff in Hsn. rewrite in_shape_to_V in Hsn. pose proof (Hneg a Ha) as Hr. unfold rho_of in Hr. rewrite Hk, Hlk in Hr.
      congruence.
  Qed.

  (* assignability answers "yes" only for inclusions *)
  Theorem list_subtype_sound f a b :
    wf2 a = true -> wf2 b = true -> sem_is_subtype_l tbl other_empty f a b = Ok true ->
    forall v, lval_ok v -> vmem tbl v a = true -> vmem tbl v b = true.
  Proof.
    intros Wa Wb Hs v Hv Ha. unfold sem_is_subtype_l in Hs.
    destruct (sem_diff a b) as [d|e] eqn:Ed; cbn [bind] in Hs; [|discriminate].
    destruct (diff_ok a b d Wa Wb Ed) as [Gd Hd].
    pose proof (elem_empty_sound f (list_is_empty_sound f) d Gd Hs (exist _ v Hv)) as He.
    rewrite Hd in He. unfold vmV in He. cbn [proj1_sig] in He. rewrite Ha in He. cbn [andb] in He.
    destruct (vmem tbl v b); [reflexivity|discriminate He].
  Qed.
End Top.
