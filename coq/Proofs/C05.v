(* Proofs/C05.v — facts about the top level of the assignability decision (Model/Subtype.v). *)
From Beff Require Import Model.Subtype.

Lemma same_iff se a b :
  sem_is_same se a b = Ok true <-> sem_is_subtype se a b = Ok true /\ sem_is_subtype se b a = Ok true.
Proof.
  unfold sem_is_same. destruct (sem_is_subtype se a b) as [[|]|e]; cbn; split; try tauto; try (intros [H _]; discriminate H); discriminate.
Qed.

Lemma same_false_iff se a b x y :
  sem_is_subtype se a b = Ok x -> sem_is_subtype se b a = Ok y -> sem_is_same se a b = Ok (x && y).
Proof. unfold sem_is_same. intros -> Hy. destruct x; cbn; [exact Hy|reflexivity]. Qed.
