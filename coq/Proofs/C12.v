(* Proofs/C12.v — a rejected value always yields at least one and at most ten errors (outside the known sites). *)
From Beff Require Import Model.Known Proofs.ResLemmas.

Lemma concat_res_nonempty {A} (l : list (res (list A))) es a :
  concat_res l = Ok es -> In (Ok a) l -> a <> [] -> es <> [].
Proof.
  revert es. induction l as [|x l IH]; cbn; intros es H Hin Ha; [contradiction|].
  destruct x as [b|e]; cbn [bind] in H; [|discriminate].
  destruct (concat_res l) as [c|e]; cbn [bind] in H; [|discriminate].
  injection H as <-. destruct Hin as [[= ->]|Hin].
  - destruct a; [congruence|discriminate].
  - intros Hnil. apply app_eq_nil in Hnil as [_ ->]. eapply IH; eauto.
Qed.

Lemma concat_res_all_ok {A} (l : list (res (list A))) es x :
  concat_res l = Ok es -> In x l -> exists a, x = Ok a.
Proof.
  revert es. induction l as [|y l IH]; cbn; intros es H Hin; [contradiction|].
  destruct y as [b|e]; cbn [bind] in H; [|discriminate].
  destruct (concat_res l) as [c|e]; cbn [bind] in H; [|discriminate].
  destruct Hin as [<-|Hin]; eauto.
Qed.

Lemma forall_res_false_inv {A} (p : A -> res bool) xs :
  forall_res p xs = Ok false -> exists x, In x xs /\ p x = Ok false.
Proof.
  induction xs as [|y ys IH]; cbn; [discriminate|].
  destruct (p y) as [[|]|e] eqn:E; try discriminate.
  - intros H. destruct (IH H) as [x [Hin Hx]]. eauto.
  - eauto.
Qed.

Lemma exists_res_false_inv {A} (p : A -> res bool) xs :
  exists_res p xs = Ok false -> forall x, In x xs -> p x = Ok false.
Proof.
  induction xs as [|y ys IH]; cbn; intros H x Hin; [contradiction|].
  destruct (p y) as [[|]|e] eqn:E; try discriminate.
  destruct Hin as [->|Hin]; auto.
Qed.

Lemma In_combine_seq {A} (x : A) xs k :
  In x xs -> exists i, In (i, x) (combine (seq_from k (List.length xs)) xs).
Proof.
  revert k. induction xs as [|y ys IH]; cbn; intros k Hin; [contradiction|].
  destruct Hin as [->|Hin]; [eauto|].
  destruct (IH (S k) Hin) as [i Hi]. eauto.
Qed.

Lemma prefix_res_false_inv {A B} (p : A -> B -> res bool) d xs ps :
  forall idx, prefix_res p d xs ps idx = Ok false ->
  exists i a, In (i, a) (combine (seq_from idx (List.length ps)) ps) /\ p a (nth i xs d) = Ok false.
Proof.
  induction ps as [|a ps IH]; cbn; intros idx; [discriminate|].
  destruct (p a (nth idx xs d)) as [[|]|e] eqn:E; try discriminate.
  - intros H. destruct (IH _ H) as [i [a' [Hin Hp]]]. eauto 6.
  - intros _. exists idx, a. auto.
Qed.

Section C12.
  Variable F : formats.
  Variable env : renv.
  Variable strict : bool.
  Hypothesis Henv : c12_plain_env env = true.

  Notation validate' f := (validate F env f strict).
  Notation report' f := (report F env strict f).

  Lemma env_c12 name t : assoc name env = Some t -> c12_plain t = true.
  Proof.
    intros H. apply assoc_In in H. unfold c12_plain_env in Henv.
    rewrite forallb_forall in Henv. apply (Henv _ H).
  Qed.

  Ltac one := intros; match goal with H : Ok [_] = Ok _ |- _ => injection H as <-; discriminate end.

  (* a value that is not object-typed always gets an error *)
  Lemma report_nonempty_prim : forall f path r v es,
      c12_plain r = true -> is_object_type v = false -> report' f path r v = Ok es -> es <> [].
  Proof.
    induction f as [|f IH]; intros path r v es; [cbn; discriminate|].
    destruct r as [t| |d| |c|items d| | |ctor|fs|fs|cs|prefix rest|rs|rs|item|r1 r2|item|ss disc mapping smap|t|props indexed|name|d t];
      cbn [report c12_plain]; try one.
    - (* RTuple *) intros _ Hv. destruct v; try discriminate Hv; one.
    - (* RAllOf *)
      intros Hp Hv H. apply andb_prop in Hp as [Hne Hall]. rewrite forallb_forall in Hall.
      destruct rs as [|m rs']; [discriminate Hne|].
      cbn [map] in H.
      destruct (concat_res_all_ok _ _ (report' f path m v) H (or_introl eq_refl)) as [a Ha].
      rewrite Ha in H. eapply concat_res_nonempty; [exact H|left; reflexivity|].
      eapply IH; eauto. apply Hall; left; reflexivity.
    - (* RAnyOf *)
      intros _ _. destruct (map_res (fun m => report' f [] m v) rs); cbn [bind]; [|discriminate].
      unfold build_union_error. destruct (deduplicate_errors f _) as [dd|e]; cbn [bind]; [|discriminate].
      destruct dd as [|x [|y l]]; one.
    - (* RArray *) intros _ Hv. destruct v; try discriminate Hv; one.
    - (* RMap *) intros _ Hv. destruct v; try discriminate Hv; one.
    - (* RSet *) intros _ Hv. destruct v; try discriminate Hv; one.
    - (* RDisc *) intros _ Hv. rewrite Hv. rewrite orb_true_r. one.
    - (* ROptional *) intros. eapply IH; eauto.
    - (* RObject *) intros _ Hv. rewrite Hv. cbn [negb orb]. one.
    - (* RRef *) intros _ Hv. destruct (assoc name env) as [t|] eqn:A; [|discriminate].
      intros. eapply IH; eauto. eapply env_c12; eauto.
    - (* RMeta *) intros. eapply IH; eauto.
  Qed.

  Lemma report_nonempty : forall f path r v es,
      c12_plain r = true -> validate' f r v = Ok false -> report' f path r v = Ok es -> es <> [].
  Proof.
    induction f as [|f IH]; intros path r v es; [cbn; discriminate|].
    destruct r as [t| |d| |c|items d| | |ctor|fs|fs|cs|prefix rest|rs|rs|item|r1 r2|item|ss disc mapping smap|t|props indexed|name|d t];
      cbn [report validate c12_plain]; try one.
    - (* RTuple *)
      intros Hp. apply andb_prop in Hp as [Hpre Hrest]. rewrite forallb_forall in Hpre.
      destruct rest as [rr|]; [|discriminate Hrest].
      destruct v; try one.
      destruct (prefix_res (validate' f) VUndef xs prefix 0) as [[|]|e] eqn:P; cbn [bind negb]; try discriminate.
      + (* a rest element is rejected *)
        intros Hv H. apply forall_res_false_inv in Hv as [x [Hin Hx]].
        destruct (concat_res _) as [pre|e] eqn:Cp in H; cbn [bind] in H; [|discriminate].
        destruct (concat_res _) as [tl|e] eqn:Ct in H; cbn [bind] in H; [|discriminate].
        injection H as <-.
        destruct (In_combine_seq x _ (List.length prefix) Hin) as [i Hi].
        rewrite skipn_length in Hi.
        pose proof (in_map (fun ix => do ok <- validate' f rr (snd ix);
                                      if ok then Ok [] else report' f (path ++ ["[" +++ nat_to_string (fst ix) +++ "]"]) rr (snd ix))
                           _ _ Hi) as Hm.
        cbn [fst snd] in Hm. rewrite Hx in Hm. cbn [bind] in Hm.
        destruct (concat_res_all_ok _ _ _ Ct Hm) as [a Ha]. rewrite Ha in Hm.
        intros Hnil. apply app_eq_nil in Hnil as [_ Hnil]. subst tl.
        eapply (concat_res_nonempty _ _ a Ct Hm); [|reflexivity].
        eapply IH; eauto.
      + (* a prefix element is rejected *)
        intros _ H. apply prefix_res_false_inv in P as [i [a [Hin Hx]]].
        destruct (concat_res _) as [pre|e] eqn:Cp in H; cbn [bind] in H; [|discriminate].
        pose proof (in_map (fun ip => let x := nth (fst ip) xs VUndef in
                                      do ok <- validate' f (snd ip) x;
                                      if ok then Ok [] else report' f (path ++ ["[" +++ nat_to_string (fst ip) +++ "]"]) (snd ip) x)
                           _ _ Hin) as Hm.
        cbn [fst snd] in Hm. rewrite Hx in Hm. cbn [bind] in Hm.
        destruct (concat_res_all_ok _ _ _ Cp Hm) as [b Hb]. rewrite Hb in Hm.
        assert (pre <> []).
        { eapply (concat_res_nonempty _ _ b Cp Hm).
          eapply (IH _ a (nth i xs VUndef)); [apply Hpre; eapply in_combine_r; eauto|exact Hx|exact Hb]. }
        destruct (concat_res _) as [tl|e] in H; cbn [bind] in H; [|discriminate].
        injection H as <-. intros Hnil. apply app_eq_nil in Hnil as [Hnil _]. contradiction.
    - (* RAllOf *)
      intros Hp Hv H. apply andb_prop in Hp as [Hne Hall]. rewrite forallb_forall in Hall.
      apply forall_res_false_inv in Hv as [m [Hin Hm]].
      pose proof (in_map (fun m => report' f path m v) _ _ Hin) as Hmap. cbn beta in Hmap.
      destruct (concat_res_all_ok _ _ _ H Hmap) as [a Ha]. rewrite Ha in Hmap.
      eapply (concat_res_nonempty _ _ a H Hmap).
      destruct (is_object_type v) eqn:Ot; cbn [negb] in Hm.
      + eapply IH; eauto.
      + eapply report_nonempty_prim; eauto.
    - (* RAnyOf *)
      intros _ _. destruct (map_res (fun m => report' f [] m v) rs); cbn [bind]; [|discriminate].
      unfold build_union_error. destruct (deduplicate_errors f _) as [dd|e]; cbn [bind]; [|discriminate].
      destruct dd as [|x [|y l]]; one.
    - (* RArray *)
      intros Hp. destruct v; try one.
      intros Hv H. apply forall_res_false_inv in Hv as [x [Hin Hx]].
      destruct (In_combine_seq x _ 0 Hin) as [i Hi].
      pose proof (in_map (fun ix => do ok <- validate' f item (snd ix);
                                    if ok then Ok [] else report' f (path ++ ["[" +++ nat_to_string (fst ix) +++ "]"]) item (snd ix))
                         _ _ Hi) as Hm.
      cbn [fst snd] in Hm. rewrite Hx in Hm. cbn [bind] in Hm.
      destruct (concat_res_all_ok _ _ _ H Hm) as [a Ha]. rewrite Ha in Hm.
      eapply (concat_res_nonempty _ _ a H Hm). eapply IH; eauto.
    - (* RMap *)
      intros Hp. apply andb_prop in Hp as [Hk Hvv]. destruct v; try one.
      intros Hv H. apply forall_res_false_inv in Hv as [[a b] [Hin Hx]]. cbn [fst snd] in Hx.
      match type of H with concat_res (map ?g _) = _ => pose proof (in_map g _ _ Hin) as Hm end.
      destruct (concat_res_all_ok _ _ _ H Hm) as [o Ho].
      eapply (concat_res_nonempty _ _ o H); [rewrite <- Ho; exact Hm|].
      cbn [fst snd] in Ho.
      destruct (template_json f a) as [js|e]; cbn [bind] in Ho; [|discriminate].
      destruct (validate' f r1 a) as [[|]|e] eqn:V1; cbn [bind negb] in Hx, Ho; try discriminate.
      + rewrite Hx in Ho. cbn [bind] in Ho.
        destruct (report' f (path ++ ["value(" +++ js +++ ")"]) r2 b) as [e2|e] eqn:R2; cbn [bind] in Ho; [|discriminate].
        injection Ho as <-. cbn [app]. eapply (IH _ r2 b); eauto.
      + destruct (report' f (path ++ ["key(" +++ js +++ ")"]) r1 a) as [e1|e] eqn:R1; cbn [bind] in Ho; [|discriminate].
        assert (e1 <> []) by (eapply (IH _ r1 a); eauto).
        destruct (validate' f r2 b) as [okv|e]; cbn [bind] in Ho; [|discriminate].
        destruct (if okv then Ok [] else report' f (path ++ ["value(" +++ js +++ ")"]) r2 b) as [e2|e]; cbn [bind] in Ho; [|discriminate].
        injection Ho as <-. intros Hnil. apply app_eq_nil in Hnil as [? _]. contradiction.
    - (* RSet *)
      intros Hp. destruct v; try one.
      intros Hv H. apply forall_res_false_inv in Hv as [x [Hin Hx]].
      pose proof (in_map (fun x => do js <- template_json f x; do ok <- validate' f item x;
                                   if ok then Ok [] else report' f (path ++ ["item(" +++ js +++ ")"]) item x) _ _ Hin) as Hm.
      destruct (concat_res_all_ok _ _ _ H Hm) as [a Ha].
      eapply (concat_res_nonempty _ _ a H); [rewrite <- Ha; exact Hm|].
      destruct (template_json f x) as [js|e]; cbn [bind] in Ha; [|discriminate].
      rewrite Hx in Ha. cbn [bind] in Ha. eapply IH; eauto.
    - (* RDisc *)
      intros Hp. apply andb_prop in Hp as [Hss Hmp]. rewrite forallb_forall in Hmp.
      rewrite (orb_comm (is_nullish v)).
      destruct (negb (is_object_type v) || is_nullish v); [one|].
      destruct (is_nullish (get v disc)); [one|].
      destruct (to_key (get v disc)) as [key|e]; cbn [bind]; [|discriminate].
      unfold lookup_plain. destruct key as [k|]; [|one].
      destruct (assoc k mapping) as [m|] eqn:Am.
      + intros. eapply IH; eauto. apply (Hmp (k, m)). apply assoc_In; assumption.
      + destruct (mem_str k object_proto_functions); [discriminate|].
        destruct (String.eqb k proto_key); [discriminate|one].
    - (* ROptional *)
      intros Hp. destruct (is_nullish v); [discriminate|]. intros. eapply IH; eauto.
    - (* RObject *)
      intros Hp. apply andb_prop in Hp as [Hprops Hidx]. rewrite forallb_forall in Hprops, Hidx.
      destruct (is_object_type v) eqn:Ot; cbn [negb andb orb]; [|one].
      destruct (is_array v); cbn [negb andb orb]; [one|].
      destruct (match v with VNull => true | _ => false end); cbn [negb]; [one|].
      destruct (forall_res (fun kp => validate' f (snd kp) (get v (fst kp))) props) as [[|]|e] eqn:P;
        cbn [bind negb]; try discriminate.
      + (* all named properties fine: an index signature or the strict flag rejected a key *)
        destruct (concat_res _) as [acc|e] eqn:Ca; cbn [bind]; [|discriminate].
        destruct indexed as [|ix indexed'].
        * destruct strict; [|discriminate].
          destruct (filter _ (own_keys v)) as [|k ks]; [discriminate|]. intros _ [= <-]. discriminate.
        * intros Hv H. apply forall_res_false_inv in Hv as [k [Hin Hk]].
          destruct (concat_res _) as [more|e] eqn:Cm in H; cbn [bind] in H; [|discriminate].
          injection H as <-. intros Hnil. apply app_eq_nil in Hnil as [_ Hnil]. subst more.
          match type of Cm with concat_res (map ?g _) = _ => pose proof (in_map g _ _ Hin) as Hm end.
          destruct (concat_res_all_ok _ _ _ Cm Hm) as [o Ho].
          eapply (concat_res_nonempty _ _ o Cm); [rewrite <- Ho; exact Hm| |reflexivity].
          cbn beta in Ho.
          (* the first pair already contributes an error *)
          cbn [map concat_res] in Ho.
          pose proof (exists_res_false_inv _ _ Hk ix (or_introl eq_refl)) as Hix. cbn beta in Hix.
          specialize (Hidx ix (or_introl eq_refl)). apply andb_prop in Hidx as [Hkr Hvr].
          destruct (validate' f (fst ix) (VStr k)) as [[|]|e] eqn:V1; cbn [bind negb] in Hix, Ho; try discriminate.
          -- rewrite Hix in Ho. cbn [bind] in Ho.
             destruct (report' f (path ++ [k]) (snd ix) (get v k)) as [e2|e] eqn:R2; cbn [bind] in Ho; [|discriminate].
             assert (e2 <> []) by (eapply (IH _ (snd ix) (get v k)); eauto).
             destruct (concat_res _) as [rest|e] in Ho; cbn [bind] in Ho; [|discriminate].
             injection Ho as <-. cbn [app]. intros Hnil. apply app_eq_nil in Hnil as [? _]. contradiction.
          -- destruct (validate' f (snd ix) (get v k)) as [vok|e]; cbn [bind] in Ho; [|discriminate].
             destruct (report' f (path ++ [k]) (fst ix) (VStr k)) as [e1|e] eqn:R1; cbn [bind] in Ho; [|discriminate].
             assert (e1 <> []) by (eapply (IH _ (fst ix) (VStr k)); eauto).
             destruct (if vok then Ok [] else report' f (path ++ [k]) (snd ix) (get v k)) as [e2|e]; cbn [bind] in Ho; [|discriminate].
             destruct (concat_res _) as [rest|e] in Ho; cbn [bind] in Ho; [|discriminate].
             injection Ho as <-. intros Hnil. apply app_eq_nil in Hnil as [Hnil _].
             apply app_eq_nil in Hnil as [? _]. contradiction.
      + (* a named property is rejected *)
        intros _ H. apply forall_res_false_inv in P as [kp [Hin Hx]].
        destruct (concat_res _) as [acc|e] eqn:Ca in H; cbn [bind] in H; [|discriminate].
        pose proof (in_map (fun kp => do ok <- validate' f (snd kp) (get v (fst kp));
                                      if ok then Ok [] else report' f (path ++ [fst kp]) (snd kp) (get v (fst kp)))
                           _ _ Hin) as Hm.
        cbn beta in Hm. rewrite Hx in Hm. cbn [bind] in Hm.
        destruct (concat_res_all_ok _ _ _ Ca Hm) as [b Hb]. rewrite Hb in Hm.
        assert (acc <> []).
        { eapply (concat_res_nonempty _ _ b Ca Hm). eapply IH; eauto. }
        destruct indexed as [|ix indexed'].
        * destruct strict.
          -- match type of H with context [filter ?p ?l] => destruct (filter p l) as [|k ks] end.
             ++ congruence.
             ++ cbn [map] in H. injection H as <-. discriminate.
          -- congruence.
        * destruct (concat_res _) as [more|e] in H; cbn [bind] in H; [|discriminate].
          injection H as <-. intros Hnil. apply app_eq_nil in Hnil as [? _]. contradiction.
    - (* RRef *)
      intros _. destruct (assoc name env) as [t|] eqn:A; [|discriminate].
      intros. eapply IH; eauto. eapply env_c12; eauto.
    - (* RMeta *) intros. eapply IH; eauto.
  Qed.
End C12.
