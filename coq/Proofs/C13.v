(* Proofs/C13.v — hash256 is SHA-256 of the encoding; the encoding and hash() ignore property order. *)
From Beff Require Import Model.Hash256Enc Proofs.Sha256 Proofs.SortLemmas.
From Coq Require Import Sorting.Permutation.

Lemma K_source_is_fips : K_source = K_fips.
Proof. reflexivity. Qed.
Lemma H0_source_is_fips : H0_source = H0_fips.
Proof. reflexivity. Qed.

(* hash256() = hex (SHA-256 (concatenation of everything the hash256 methods write)) *)
Theorem hash256_is_sha256_of_encoding env f r h :
  hash256_hex env f r = Ok h ->
  exists ws, hash256_writes env f r = Ok ws /\
             h = hex_words (sha256_words K_fips H0_fips (List.concat ws)).
Proof.
  unfold hash256_hex. destruct (hash256_writes env f r) as [ws|e]; cbn [bind]; [|discriminate].
  intros [= <-]. exists ws. split; [reflexivity|].
  rewrite writer_computes_sha256. rewrite K_source_is_fips, H0_source_is_fips. reflexivity.
Qed.

(* ---------- property order ---------- *)
Lemma enc_props_ext e look look' ks st :
  (forall k, look k = look' k) -> enc_props e look ks st = enc_props e look' ks st.
Proof.
  intros H. revert st. induction ks as [|k ks IH]; intros st; cbn; [reflexivity|].
  rewrite <- H. destruct (look k); [|reflexivity].
  destruct (e st r) as [a|x]; cbn [bind]; [|reflexivity]. rewrite IH. reflexivity.
Qed.

Lemma enc_mapping_ext e look look' ks st :
  (forall k, look k = look' k) -> enc_mapping e look ks st = enc_mapping e look' ks st.
Proof.
  intros H. revert st. induction ks as [|k ks IH]; intros st; cbn; [reflexivity|].
  rewrite <- H. destruct (look k); [|reflexivity].
  destruct (e st r) as [a|x]; cbn [bind]; [|reflexivity]. rewrite IH. reflexivity.
Qed.

Lemma keys_perm {A} (l l' : list (string * A)) : Permutation l l' -> Permutation (keys l) (keys l').
Proof. apply Permutation_map. Qed.

Theorem enc_object_property_order env f st props props' indexed :
  Permutation props props' -> NoDup (keys props) ->
  enc env f st (RObject props indexed) = enc env f st (RObject props' indexed).
Proof.
  intros Hp Hnd. destruct f as [|f]; [reflexivity|]. cbn [enc].
  rewrite (sort_strings_perm _ _ (keys_perm _ _ Hp)).
  rewrite (enc_props_ext (enc env f) (fun k => assoc k props) (fun k => assoc k props')); [reflexivity|].
  intros k. apply assoc_perm; assumption.
Qed.

Theorem enc_disc_mapping_order env f st ss disc mapping mapping' smap :
  Permutation mapping mapping' -> NoDup (keys mapping) ->
  enc env f st (RDisc ss disc mapping smap) = enc env f st (RDisc ss disc mapping' smap).
Proof.
  intros Hp Hnd. destruct f as [|f]; [reflexivity|]. cbn [enc].
  rewrite (sort_strings_perm _ _ (keys_perm _ _ Hp)).
  destruct ((fix go (l : list rt) (st0 : est) {struct l} := _) ss st) as [p|e]; cbn [bind]; [|reflexivity].
  rewrite (enc_mapping_ext (enc env f) (fun k => assoc k mapping) (fun k => assoc k mapping')); [reflexivity|].
  intros k. apply assoc_perm; assumption.
Qed.

Theorem enc_format_order env f st fs fs' :
  Permutation fs fs' -> enc env f st (RStringFmt fs) = enc env f st (RStringFmt fs').
Proof.
  intros Hp. destruct f as [|f]; [reflexivity|]. cbn [enc]. rewrite (sort_strings_perm _ _ Hp). reflexivity.
Qed.

(* metadata (descriptions, JSDoc) is not part of the encoding *)
Theorem enc_ignores_metadata env f st d t : enc env (S f) st (RMeta d t) = enc env f st t.
Proof. reflexivity. Qed.

Lemma map_res_ext {A B} (g g' : A -> res B) l : (forall x, g x = g' x) -> map_res g l = map_res g' l.
Proof.
  intros H. induction l as [|x l IH]; cbn; [reflexivity|]. rewrite H, IH. reflexivity.
Qed.

Theorem hash32_object_property_order env f seen props props' indexed :
  Permutation props props' -> NoDup (keys props) ->
  hash32 env f seen (RObject props indexed) = hash32 env f seen (RObject props' indexed).
Proof.
  intros Hp Hnd. destruct f as [|f]; [reflexivity|]. cbn [hash32].
  rewrite (sort_strings_perm _ _ (keys_perm _ _ Hp)).
  erewrite map_res_ext; [reflexivity|].
  intros k. cbn beta. rewrite (assoc_perm _ _ Hp Hnd k). reflexivity.
Qed.
