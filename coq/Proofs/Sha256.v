(* Proofs/Sha256.v — the streaming writer computes the one-shot FIPS padding-and-compress, for every
   sequence of writes (every chunking, every block boundary, both padding branches). *)
From Beff Require Import Model.Sha256.
From Coq Require Import Lia.

Section WriterCorrect.
  Variable K : list word.
  Variable H0 : list word.
  Notation pc := (process_chunk K).

  Definition len64 (b : list byte) : Prop := List.length b = 64.

  Lemma concat_len64 bs : Forall len64 bs -> List.length (List.concat bs) = 64 * List.length bs.
  Proof.
    induction 1 as [|b bs Hb _ IH]; cbn [List.concat List.length]; [reflexivity|].
    rewrite app_length, IH. unfold len64 in Hb. lia.
  Qed.

  (* ---------- the copy loop ---------- *)
  Lemma update_loop_spec : forall fuel h buf data,
      List.length buf < 64 -> List.length data < fuel ->
      exists bs, Forall len64 bs /\
                 buf ++ data = List.concat bs ++ snd (update_loop K fuel h buf data) /\
                 fst (update_loop K fuel h buf data) = fold_left pc bs h /\
                 List.length (snd (update_loop K fuel h buf data)) < 64.
  Proof.
    induction fuel as [|f IH]; intros h buf data Hbuf Hfuel; [lia|].
    destruct data as [|d data'].
    - exists []. cbn. rewrite app_nil_r. auto.
    - cbn [update_loop]. set (data := d :: data') in *.
      assert (Hd : data = d :: data') by reflexivity. clearbody data.
      set (space := 64 - List.length buf).
      assert (Hspace : 1 <= space <= 64) by (unfold space; lia).
      destruct (Nat.eqb (List.length (buf ++ firstn space data)) 64) eqn:E.
      + apply Nat.eqb_eq in E. rewrite app_length, firstn_length in E.
        assert (Hge : space <= List.length data) by lia.
        assert (Hrest : List.length (skipn space data) < f).
        { rewrite skipn_length. subst data. cbn [List.length] in *. lia. }
        destruct (IH (pc h (buf ++ firstn space data)) [] (skipn space data)) as [bs [Hbs [Heq [Hh Hlen]]]];
          [cbn; lia|exact Hrest|].
        exists ((buf ++ firstn space data) :: bs). repeat split.
        * constructor; [|exact Hbs]. unfold len64. rewrite app_length, firstn_length. lia.
        * cbn [List.concat]. rewrite <- app_assoc. rewrite <- Heq. cbn [app].
          rewrite <- app_assoc. rewrite firstn_skipn. reflexivity.
        * exact Hh.
        * exact Hlen.
      + apply Nat.eqb_neq in E. rewrite app_length, firstn_length in E.
        assert (Hlt : List.length data < space) by lia.
        rewrite firstn_all2 by lia. rewrite skipn_all2 by lia.
        exists []. destruct f; cbn; rewrite app_length; repeat split; auto; lia.
  Qed.

  (* ---------- the invariant of the writer ---------- *)
  Definition Inv (w : writer) (m : list byte) : Prop :=
    exists bs, Forall len64 bs /\ m = List.concat bs ++ wbuf w /\ wh w = fold_left pc bs H0 /\
               List.length (wbuf w) < 64 /\ whashed w = N.of_nat (List.length m).

  Lemma Inv_init : Inv (writer_init H0) [].
  Proof. exists []. cbn. repeat split; auto. lia. Qed.

  Lemma Inv_update w m d : Inv w m -> Inv (update_bytes K w d) (m ++ d).
  Proof.
    intros [bs [Hbs [Hm [Hh [Hlen Hn]]]]].
    unfold update_bytes.
    destruct (update_loop_spec (S (List.length d)) (wh w) (wbuf w) d Hlen (Nat.lt_succ_diag_r _))
      as [bs' [Hbs' [Heq [Hh' Hlen']]]].
    destruct (update_loop K (S (List.length d)) (wh w) (wbuf w) d) as [h' buf'] eqn:E.
    cbn [fst snd] in *. exists (bs ++ bs'). cbn [wh wbuf whashed]. repeat split.
    - apply Forall_app; auto.
    - rewrite concat_app, <- app_assoc, <- Heq, Hm, app_assoc. reflexivity.
    - rewrite fold_left_app, <- Hh. exact Hh'.
    - exact Hlen'.
    - rewrite Hn, app_length. lia.
  Qed.

  Lemma Inv_updates writes : forall w m, Inv w m -> Inv (fold_left (update_bytes K) writes w) (m ++ List.concat writes).
  Proof.
    induction writes as [|d ds IH]; intros w m H; cbn [fold_left List.concat].
    - rewrite app_nil_r. exact H.
    - rewrite app_assoc. apply IH. apply Inv_update. exact H.
  Qed.

  (* ---------- blocks of the padded message ---------- *)
  Lemma nblocks_app bs : Forall len64 bs -> forall k t,
      nblocks (List.length bs + k) (List.concat bs ++ t) = bs ++ nblocks k t.
  Proof.
    induction 1 as [|b bs Hb _ IH]; intros k t; [reflexivity|].
    cbn [List.length Nat.add nblocks List.concat]. rewrite <- app_assoc.
    unfold len64 in Hb.
    rewrite firstn_app, skipn_app, Hb, Nat.sub_diag, firstn_O, skipn_O.
    rewrite (@firstn_all2 _ 64 b) by lia. rewrite (@skipn_all2 _ 64 b) by lia. rewrite app_nil_r. cbn [app].
    rewrite IH. reflexivity.
  Qed.

  Lemma nblocks_one t : List.length t = 64 -> nblocks 1 t = [t].
  Proof. intros H. cbn [nblocks]. rewrite firstn_all2 by lia. reflexivity. Qed.

  Lemma nblocks_two a b : List.length a = 64 -> List.length b = 64 -> nblocks 2 (a ++ b) = [a; b].
  Proof.
    intros Ha Hb. cbn [nblocks]. rewrite firstn_app, skipn_app, Ha, Nat.sub_diag, firstn_O, skipn_O.
    rewrite (@firstn_all2 _ 64 a) by lia. rewrite (@skipn_all2 _ 64 a) by lia. rewrite app_nil_r. cbn [app].
    rewrite firstn_all2 by lia. reflexivity.
  Qed.

  (* ---------- the 64-bit length field ---------- *)
  Local Open Scope N_scope.

  Lemma byte_at_div x s : byte_at x s = (x / 2 ^ s) mod 256.
  Proof.
    unfold byte_at. rewrite N.shiftr_div_pow2. change 255 with (N.ones 8). rewrite N.land_ones. reflexivity.
  Qed.

  Lemma mod_mul_div L a b : a <> 0 -> b <> 0 -> (L mod (a * b)) / a = (L / a) mod b.
  Proof.
    intros Ha Hb. rewrite N.mod_mul_r by assumption.
    rewrite (N.mul_comm a). rewrite N.div_add by assumption.
    rewrite N.div_small by (apply N.mod_lt; assumption). reflexivity.
  Qed.

  Lemma mod_mod_mul x c : c <> 0 -> (x mod (256 * c)) mod 256 = x mod 256.
  Proof.
    intros Hc. rewrite N.mod_mul_r by (try assumption; discriminate).
    rewrite (N.mul_comm 256). rewrite N.mod_add by discriminate. apply N.mod_mod. discriminate.
  Qed.

  Lemma low_byte L s c : 2 ^ 32 = 2 ^ s * (256 * c) -> c <> 0 ->
                         byte_at (w32 L) s = (L / 2 ^ s) mod 256.
  Proof.
    intros Hs Hc. rewrite byte_at_div. unfold w32, W32. change 4294967296 with (2 ^ 32). rewrite Hs.
    rewrite mod_mul_div; [|apply N.pow_nonzero; discriminate|destruct c; [congruence|discriminate]].
    apply mod_mod_mul. assumption.
  Qed.

  Lemma high_byte L s : byte_at (L / W32) s = (L / 2 ^ (32 + s)) mod 256.
  Proof.
    rewrite byte_at_div. unfold W32. change 4294967296 with (2 ^ 32).
    rewrite N.div_div by (apply N.pow_nonzero; discriminate).
    rewrite <- N.pow_add_r. reflexivity.
  Qed.

  Lemma length_field L : u32_bytes (L / W32) ++ u32_bytes (w32 L) = be_bytes 8 L.
  Proof.
    unfold u32_bytes. cbn [app be_bytes].
    rewrite !high_byte.
    rewrite (low_byte L 24 1), (low_byte L 16 256), (low_byte L 8 65536), (low_byte L 0 16777216);
      try reflexivity; try discriminate.
  Qed.
  Local Close Scope N_scope.

  (* ---------- the digest ---------- *)
  Theorem digest_correct w m : Inv w m -> digest_words K w = sha256_words K H0 m.
  Proof.
    intros [bs [Hbs [Hm [Hh [Hlen Hn]]]]].
    unfold digest_words, sha256_words, pad.
    set (buf := wbuf w) in *. set (r := List.length buf) in *.
    assert (Hr : List.length buf = r) by reflexivity. clearbody r. clearbody buf.
    assert (Hml : List.length m = 64 * List.length bs + r).
    { rewrite Hm, app_length, concat_len64 by assumption. lia. }
    assert (Hmod : List.length m mod 64 = r).
    { rewrite Hml. rewrite Nat.mul_comm, Nat.add_comm, Nat.mod_add by lia. apply Nat.mod_small. lia. }
    rewrite Hn. rewrite length_field.
    set (len8 := be_bytes 8 (N.of_nat (List.length m) * 8)).
    assert (Hlen8 : List.length len8 = 8) by reflexivity.
    unfold pad_zeros. rewrite Hmod.
    rewrite app_length. cbn [List.length]. rewrite Hr.
    destruct (Nat.ltb 56 (r + 1)) eqn:E.
    - (* two blocks *)
      apply Nat.ltb_lt in E.
      assert (Hz : (119 - r) mod 64 = (64 - (r + 1)) + 56).
      { rewrite Nat.mod_small by lia. lia. }
      rewrite Hz, repeat_app.
      set (b1 := (buf ++ [128%N]) ++ repeat 0%N (64 - (r + 1))).
      match goal with |- process_chunk K (process_chunk K _ _) ?x = _ => set (b2 := x) end.
      assert (Hb1 : List.length b1 = 64).
      { unfold b1. rewrite !app_length, repeat_length. cbn [List.length]. lia. }
      assert (Hb2 : List.length b2 = 64).
      { unfold b2. cbn [app List.length]. rewrite app_length, ?repeat_length. reflexivity. }
      assert (Hp : m ++ [128%N] ++ (repeat 0%N (64 - (r + 1)) ++ repeat 0%N 56) ++ len8
                   = List.concat bs ++ (b1 ++ b2)).
      { rewrite Hm. unfold b1, b2. cbn [app List.length]. rewrite <- !app_assoc. reflexivity. }
      rewrite Hp. clearbody b1 b2.
      assert (Hlp : List.length (List.concat bs ++ b1 ++ b2) / 64 = List.length bs + 2).
      { rewrite !app_length, concat_len64, Hb1, Hb2 by assumption.
        replace (64 * List.length bs + (64 + 64)) with ((List.length bs + 2) * 64) by lia.
        apply Nat.div_mul. lia. }
      rewrite Hlp, nblocks_app by assumption. rewrite nblocks_two by assumption.
      rewrite fold_left_app. cbn [fold_left]. rewrite <- Hh. reflexivity.
    - (* one block *)
      apply Nat.ltb_ge in E.
      assert (Hz : (119 - r) mod 64 = 56 - (r + 1)).
      { replace (119 - r) with ((55 - r) + 1 * 64) by lia. rewrite Nat.mod_add by lia.
        rewrite Nat.mod_small by lia. lia. }
      rewrite Hz. rewrite ?(app_length buf [128%N]). cbn [List.length]. rewrite ?Hr.
      set (b := (buf ++ [128%N]) ++ repeat 0%N (56 - (r + 1)) ++ len8).
      assert (Hb : List.length b = 64).
      { unfold b. rewrite !app_length, repeat_length. cbn [List.length]. unfold byte in *. lia. }
      assert (Hp : m ++ [128%N] ++ repeat 0%N (56 - (r + 1)) ++ len8 = List.concat bs ++ b).
      { rewrite Hm. unfold b. rewrite <- !app_assoc. reflexivity. }
      rewrite Hp. clearbody b.
      assert (Hlp : List.length (List.concat bs ++ b) / 64 = List.length bs + 1).
      { rewrite app_length, concat_len64, Hb by assumption.
        replace (64 * List.length bs + 64) with ((List.length bs + 1) * 64) by lia.
        apply Nat.div_mul. lia. }
      rewrite Hlp, nblocks_app by assumption. rewrite nblocks_one by assumption.
      rewrite fold_left_app. cbn [fold_left]. rewrite <- Hh. reflexivity.
  Qed.

  Theorem writer_computes_sha256 (writes : list (list byte)) :
    digest_words K (fold_left (update_bytes K) writes (writer_init H0)) = sha256_words K H0 (List.concat writes).
  Proof.
    apply digest_correct. apply (Inv_updates writes _ [] Inv_init).
  Qed.
End WriterCorrect.
