(* Props/C15.v — property C15: describe() prints TypeScript that compiles back to the same validator; it terminates on
   recursive types and declares every shared or recursive named type exactly once.  Statements only.

   What is a theorem here: the alias table describe() fills has one entry per name, the active set is restored by every call,
   and describeChildren() (which decides which names are extracted) covers every component describe() descends into.
   What is not a theorem: termination on recursive types (decided by the correspondence stream and the search, see DESIGN.md),
   and the round trip through the compiler (the compiler frontend is not modelled; decided by the search). *)
From Beff Require Import Model.Describe Proofs.SortLemmas Proofs.C15.

(* every alias is declared once: the table of extracted aliases has no duplicate name, the list the declarations are
   rendered from (sorted keys) has none either, and no name is left "active" *)
Theorem C15_aliases_declared_once :
  forall env fuel counts r d st',
    describe env fuel counts None ([], []) r = Ok (d, st') ->
    NoDup (keys (fst st')) /\ NoDup (sort_strings (keys (fst st'))) /\ snd st' = [].
Proof.
  intros env fuel counts r d st' H.
  destruct (describe_step env fuel counts None ([], []) r (d, st') H) as (A & B & _). cbn in A, B.
  assert (N : NoDup (keys (fst st'))) by (apply B; constructor).
  repeat split; auto.
  eapply Permutation.Permutation_NoDup; [|exact N]. apply sort_perm.
Qed.

(* every call leaves the active set as it found it and only adds aliases *)
Theorem C15_describe_restores_active :
  forall env fuel counts md st r res,
    describe env fuel counts md st r = Ok res ->
    snd (snd res) = snd st /\ incl (keys (fst st)) (keys (fst (snd res))).
Proof. intros env fuel counts md st r res H. destruct (describe_step env fuel counts md st r res H) as (A & _ & C). auto. Qed.

(* the reference counter sees every component the printer descends into *)
Theorem C15_children_complete :
  forall r c,
    match r with
    | RTuple prefix rest => In c prefix \/ rest = Some c
    | RAllOf rs | RAnyOf rs => In c rs
    | RDisc ss _ _ _ => In c ss
    | RArray t | RSet t | ROptional t => c = t
    | RMap k v => c = k \/ c = v
    | RObject props indexed => In c (map snd props) \/ (exists kv, In kv indexed /\ (c = fst kv \/ c = snd kv))
    | _ => False
    end -> In c (describe_children r).
Proof. exact describe_children_complete. Qed.

(* non-vacuity: a type recursive through Set, Map and a tuple rest, shared twice, with a doc comment *)
Definition ex_env : renv :=
  [("Node", RObject [("next", ROptional (RSet (RRef "Node"))); ("m", RMap (RTypeof TyString) (RRef "Node"));
                     ("t", RTuple [RTypeof TyNumber] (Some (RRef "Leaf")))] []);
   ("Leaf", RMeta "a leaf" (RObject [("v", RConst (CStr "x"))] []))].
Example C15_nonvacuous :
  describe_top ex_env 50 "T" false (RObject [("a", RRef "Node"); ("b", RRef "Node"); ("c", RRef "Leaf")] []) =
  Ok ("/** a leaf */" +++ nl +++ "type Leaf = { v: ""x"" };" +++ nl +++ nl +++
      "type Node = { m: Map<string, Node>, next?: Set<Node>, t: [number, ...Array<Leaf>] };" +++ nl +++ nl +++
      "type CodecT = { a: Node, b: Node, c: Leaf };").
Proof. vm_compute. reflexivity. Qed.

Print Assumptions C15_aliases_declared_once.
Print Assumptions C15_describe_restores_active.
Print Assumptions C15_children_complete.
