(* Props/C15.v — property C15: describe() prints TypeScript that compiles back to the same validator; it terminates on
   recursive types and declares every shared or recursive named type exactly once.  Statements only.

   What is a theorem here: the alias table describe() fills has one entry per name, the active set is restored by every call,
   and describeChildren() (which decides which names are extracted) covers every component describe() descends into.
   Termination on recursive types is a theorem relative to a decidable condition on the reference counts (`term_okb`: the named
   types printed in place do not reach themselves through types printed in place only), which the check evaluates on every
   generated case; that collectDescribeRefs always produces such counts is not proved.
   What is not a theorem: the round trip through the compiler (the compiler frontend is not modelled; decided by the search). *)
From Beff Require Import Model.Describe Proofs.SortLemmas Proofs.C15 Proofs.C15Term.

(* every alias is declared once: the table of extracted aliases has no duplicate name, the list the declarations are
   rendered from (sorted keys) has none either, and no name is left "active" *)
Theorem C15_aliases_declared_once :
  forall env fuel counts r d st',
    describe env fuel counts None ([], []) r = Ok (d, st') ->
    NoDup (keys (fst st')) /\ NoDup (sort_strings (keys (fst st'))) /\ snd st' = [].
Proof.
  intros env fuel counts r d st' H.
  destruct (describe_step env fuel counts None ([], []) r (d, st') H) as (A & B & _). cbn in A, B.
  assert (N : NoDup (keys (fst st'))) by (apply B; constructor).
  repeat split; auto.
  eapply Permutation.Permutation_NoDup; [|exact N]. apply sort_perm.
Qed.

(* every call leaves the active set as it found it and only adds aliases *)
Theorem C15_describe_restores_active :
  forall env fuel counts md st r res,
    describe env fuel counts md st r = Ok res ->
    snd (snd res) = snd st /\ incl (keys (fst st)) (keys (fst (snd res))).
Proof. intros env fuel counts md st r res H. destruct (describe_step env fuel counts md st r res H) as (A & _ & C). auto. Qed.

(* the reference counter sees every component the printer descends into *)
Theorem C15_children_complete :
  forall r c,
    match r with
    | RTuple prefix rest => In c prefix \/ rest = Some c
    | RAllOf rs | RAnyOf rs => In c rs
    | RDisc ss _ _ _ => In c ss
    | RArray t | RSet t | ROptional t => c = t
    | RMap k v => c = k \/ c = v
    | RObject props indexed => In c (map snd props) \/ (exists kv, In kv indexed /\ (c = fst kv \/ c = snd kv))
    | _ => False
    end -> In c (describe_children r).
Proof. exact describe_children_complete. Qed.

(* non-vacuity: a type recursive through Set, Map and a tuple rest, shared twice, with a doc comment *)
Definition ex_env : renv :=
  [("Node", RObject [("next", ROptional (RSet (RRef "Node"))); ("m", RMap (RTypeof TyString) (RRef "Node"));
                     ("t", RTuple [RTypeof TyNumber] (Some (RRef "Leaf")))] []);
   ("Leaf", RMeta "a leaf" (RObject [("v", RConst (CStr "x"))] []))].
Example C15_nonvacuous :
  describe_top ex_env 50 "T" false (RObject [("a", RRef "Node"); ("b", RRef "Node"); ("c", RRef "Leaf")] []) =
  Ok ("/** a leaf */" +++ nl +++ "type Leaf = { v: ""x"" };" +++ nl +++ nl +++
      "type Node = { m: Map<string, Node>, next?: Set<Node>, t: [number, ...Array<Leaf>] };" +++ nl +++ nl +++
      "type CodecT = { a: Node, b: Node, c: Leaf };").
Proof. vm_compute. reflexivity. Qed.

(* ---- describe() terminates on recursive types ----
   For every environment of named types, every root type, every assignment of ranks: if the heights are at most H, and — for the
   counts collectDescribeRefs computes — every named type reachable from the root (`rl`) refers to types printed in place (count <= 1)
   of lower rank only (a type printed as an alias, count >= 2, may refer to anything: it is marked active while its body is printed),
   then no fuel above (|env| + 1) * (R + 1) * (H + 1) is exhausted: describe() returns (or throws one of its own errors). *)
Theorem C15_describe_terminates_on_recursive_types :
  forall env ranks rl R H fuel name hide r,
    forallb (fun e => Nat.leb (ht (snd e)) H) env = true ->
    ht r <= H ->
    (forall c, collect env fuel ([], []) r = Ok c ->
               term_okb env (fst c) ranks rl R H = true /\ refs_ok (fst c) (rank_list ranks) rl R r = true) ->
    (List.length env + 1) * ((R + 1) * (H + 1)) < fuel ->
    forall e, describe_top env fuel name hide r = Throw e -> e <> EOutOfFuel.
Proof. exact describe_top_terminates. Qed.

(* the two halves: counting enters every named type once; printing enters every alias once and descends along the ranks *)
Theorem C15_counting_terminates :
  forall env H, (forall n t, assoc n env = Some t -> ht t <= H) ->
    forall fuel st r, ht r <= H -> (List.length env + 1) * (H + 1) <= fuel ->
    forall e, collect env fuel st r = Throw e -> e <> EOutOfFuel.
Proof.
  intros env H Hh fuel st r Hr Hf.
  apply (collect_no_oof env H Hh fuel st r (List.length env) H); [|exact Hr|apply le_n|].
  - unfold unvisited. etransitivity; [apply filter_length_upper|]. unfold keys. rewrite map_length. apply le_n.
  - eapply Nat.lt_le_trans; [|exact Hf]. rewrite Nat.mul_add_distr_r, Nat.mul_1_l.
    apply Nat.add_lt_mono_l. apply Nat.lt_succ_r. rewrite Nat.add_1_r. apply le_n.
Qed.
Theorem C15_printing_terminates :
  forall env counts ranks rl R H fuel md r,
    term_okb env counts ranks rl R H = true -> ht r <= H -> refs_ok counts (rank_list ranks) rl R r = true ->
    (List.length env + 1) * ((R + 1) * (H + 1)) < fuel ->
    forall e, describe env fuel counts md ([], []) r = Throw e -> e <> EOutOfFuel.
Proof. exact describe_terminates. Qed.

(* non-vacuity: the recursive example above satisfies the hypotheses with the counts the model computes (Node and Leaf are aliases),
   and so does a type printed in place between two occurrences of a recursive alias; a type printed in place that reached itself
   would not (the premise is not trivially true) *)
Definition ex_env2 : renv :=
  [("Wrap", RObject [("n", RRef "Node2")] []);
   ("Node2", RObject [("next", ROptional (RRef "Node2")); ("w", ROptional (RArray (RRef "Node2")))] [])].
Example C15_termination_nonvacuous :
  (exists c, collect ex_env 50 ([], []) (RObject [("a", RRef "Node"); ("b", RRef "Node"); ("c", RRef "Leaf")] []) = Ok c /\
             term_okb ex_env (fst c) [] ["Node"; "Leaf"] 1 6 = true) /\
  (exists c, collect ex_env2 50 ([], []) (RObject [("w", RRef "Wrap")] []) = Ok c /\
             aliased (fst c) "Wrap" = false /\ aliased (fst c) "Node2" = true /\
             term_okb ex_env2 (fst c) [("Wrap", 0)] ["Wrap"; "Node2"] 1 6 = true /\
             refs_ok (fst c) (rank_list [("Wrap", 0)]) ["Wrap"; "Node2"] 1 (RObject [("w", RRef "Wrap")] []) = true) /\
  term_okb [("Loop", RArray (RRef "Loop"))] [("Loop", 1)] [("Loop", 0)] ["Loop"] 1 6 = false.
Proof.
  split; [eexists; split; [vm_compute; reflexivity|vm_compute; reflexivity]|].
  split; [eexists; split; [vm_compute; reflexivity|repeat split; vm_compute; reflexivity]|].
  vm_compute. reflexivity.
Qed.

Print Assumptions C15_aliases_declared_once.
Print Assumptions C15_describe_restores_active.
Print Assumptions C15_children_complete.
Print Assumptions C15_describe_terminates_on_recursive_types.
Print Assumptions C15_counting_terminates.
Print Assumptions C15_printing_terminates.
Print Assumptions C15_termination_nonvacuous.
