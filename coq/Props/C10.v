(* Props/C10.v — property C10: compilation output is a deterministic function of the sources.  Statements only.
   A Gallina function is deterministic by construction, so the source of non-determinism is made explicit: wherever the
   compiler iterates a std HashMap the model iterates the entries in an order chosen by an oracle (any permutation). *)
From Beff Require Import Model.Base Proofs.SortLemmas.
From Coq Require Import Sorting.Permutation.

(* parser_extractor.rs:127-146: the (name, schema) pairs collected in FrontendCtx.partial_validators are sorted by name
   before they become the list of named validators that is emitted *)
Definition emitted_order {A} (kvs : list (string * A)) : list (string * A) := sort_by key_leb kvs.

(* whatever order the map is iterated in (any permutation of its entries; names are unique in a map), the emitted
   sequence of named validators is the same *)
Theorem C10_named_validators_independent_of_map_order :
  forall (A : Type) (kvs kvs' : list (string * A)),
    Permutation kvs kvs' -> NoDup (keys kvs) -> emitted_order kvs = emitted_order kvs'.
Proof. intros. apply sort_by_key_perm; assumption. Qed.

(* the first-error rule of extract_whole_file_as_value (typeof of a namespace import): iterating the exports in oracle
   order and returning the first failure depends on the oracle as soon as two exports fail; iterating in name order
   (the repaired code) does not *)
Definition first_error (order : list (string * option string)) : option string :=
  match filter (fun kv => match snd kv with Some _ => true | None => false end) order with
  | (_, Some e) :: _ => Some e
  | _ => None
  end.
Definition C10_first_error_independent_of_map_order : Prop :=
  forall kvs kvs', Permutation kvs kvs' -> NoDup (keys kvs) -> first_error kvs = first_error kvs'.
Theorem C10_refuted_first_error_depends_on_map_order : ~ C10_first_error_independent_of_map_order.
Proof.
  intros H. specialize (H [("a", Some "error in a"); ("b", Some "error in b")] [("b", Some "error in b"); ("a", Some "error in a")]).
  assert (Hp : Permutation [("a", Some "error in a"); ("b", Some "error in b")] [("b", Some "error in b"); ("a", Some "error in a")])
    by apply perm_swap.
  assert (Hn : NoDup (keys [("a", Some "error in a"); ("b", Some "error in b")])).
  { repeat constructor; cbn; intuition discriminate. }
  specialize (H Hp Hn). discriminate H.
Qed.
Theorem C10_first_error_in_name_order_is_deterministic :
  forall kvs kvs', Permutation kvs kvs' -> NoDup (keys kvs) ->
                   first_error (sort_by key_leb kvs) = first_error (sort_by key_leb kvs').
Proof. intros kvs kvs' Hp Hn. rewrite (sort_by_key_perm kvs kvs' Hp Hn). reflexivity. Qed.

Print Assumptions C10_named_validators_independent_of_map_order.
Print Assumptions C10_refuted_first_error_depends_on_map_order.
Print Assumptions C10_first_error_in_name_order_is_deterministic.
