(* Props/C07.v — property C07: a semantically computed type is handed to code generation as an ordinary type with the
   same meaning, printable, with helper names defined once.  Statements only.
   Model/Materialise.v is the per-tag part of convert_to_schema_no_cache; mem (Model/SemSpec.v) is what a semantic type
   denotes, rmember (Model/Ir.v) what an ordinary IR type denotes.  The clauses of mapping/list components, helper names,
   keyof and indexed access are decided on the implementation (see DESIGN.md). *)
From Beff Require Import Model.Materialise Proofs.C07.

(* for every semantic type made of the basic tags and positive literal sets (what unions, intersections and differences of
   null / boolean / number / string and their literals produce, except "all but these literals"): the materialised type
   denotes the same set, for every basic value *)
Theorem C07_positive_basic_types_materialise_exactly :
  forall F env f t v r,
    positive_basic t = true -> basic_val v = true -> materialise t = Ok r ->
    rmember F env (S (S f)) r v = Ok (mem t (point_of v)).
Proof. exact materialise_positive_basic. Qed.

(* refuted for excluded literal sets: "number without 1" is materialised as the bare negation `not 1`, which the printer
   cannot print and which contains null *)
Definition number_without_1 : semtype := mkSem 0 [PNumber false [NLit 1]].
Theorem C07_refuted_excluded_literal_sets :
  exists r, materialise number_without_1 = Ok r /\ r = IStNot (IConst (ICNum (NInt 1))) /\
            mem number_without_1 (point_of VNull) = false /\
            rmember {| sfmt := fun _ => None; nfmt := fun _ => None |} [] 5 r VNull = Ok true.
Proof. eexists. repeat split; vm_compute; reflexivity. Qed.

(* non-vacuity: "a" | "b" | 1 | boolean | null *)
Definition ex_sem : semtype :=
  mkSem (N.lor (stag_code TgBoolean) (stag_code TgNull)) [PNumber true [NLit 1]; PString true [STpl [TplConst "a"]; STpl [TplConst "b"]]].
Example C07_nonvacuous :
  positive_basic ex_sem = true /\
  materialise ex_sem = Ok (IAnyOf [IBoolean; INull; IConst (ICNum (NInt 1)); ITpl [TplConst "a"]; ITpl [TplConst "b"]]) /\
  mem ex_sem (point_of (VStr "b")) = true /\ mem ex_sem (point_of (VStr "c")) = false /\ mem ex_sem (point_of (VNum (NInt 2))) = false.
Proof. repeat split; vm_compute; reflexivity. Qed.

Print Assumptions C07_positive_basic_types_materialise_exactly.
Print Assumptions C07_refuted_excluded_literal_sets.
