(* Props/C05.v — property C05: assignability decisions coincide with inclusion of value sets.  Statements only.
   The decision is  is_subtype(a, b) = is_empty(a \ b).  Theorems here are about that top level (Model/Subtype.v, with the
   emptiness of list and mapping components as a parameter); the list and mapping emptiness procedures themselves are
   judged by enumeration of values on the implementation (see DESIGN.md). *)
From Beff Require Import Model.Subtype Proofs.C05.

(* "two types are reported equivalent exactly when each is assignable to the other" *)
Theorem C05_same_type_is_mutual_assignability :
  forall struct_empty a b,
    sem_is_same struct_empty a b = Ok true <->
    sem_is_subtype struct_empty a b = Ok true /\ sem_is_subtype struct_empty b a = Ok true.
Proof. exact same_iff. Qed.

Theorem C05_same_type_answer :
  forall struct_empty a b x y,
    sem_is_subtype struct_empty a b = Ok x -> sem_is_subtype struct_empty b a = Ok y ->
    sem_is_same struct_empty a b = Ok (x && y).
Proof. exact same_false_iff. Qed.

(* the reduction the whole decision rests on *)
Theorem C05_assignability_is_emptiness_of_difference :
  forall struct_empty a b,
    sem_is_subtype struct_empty a b = (do d <- sem_diff a b; sem_is_empty struct_empty d).
Proof. reflexivity. Qed.

(* non-vacuity: "a" | 1 is assignable to string | 1 | 2 and not the other way round *)
Definition ex_a : semtype := mkSem 0 [PNumber true [NLit 1]; PString true [STpl [TplConst "a"]]].
Definition ex_b : semtype := mkSem (stag_code TgString) [PNumber true [NLit 1; NLit 2]].
Example C05_nonvacuous :
  sem_is_subtype no_struct ex_a ex_b = Ok true /\ sem_is_subtype no_struct ex_b ex_a = Ok false /\
  sem_is_same no_struct ex_a ex_b = Ok false /\ sem_is_same no_struct ex_a ex_a = Ok true.
Proof. repeat split; vm_compute; reflexivity. Qed.

Print Assumptions C05_same_type_is_mutual_assignability.
Print Assumptions C05_same_type_answer.
Print Assumptions C05_assignability_is_emptiness_of_difference.
