(* Props/C05.v — property C05: assignability decisions coincide with inclusion of value sets.  Statements only.
   The decision is  is_subtype(a, b) = is_empty(a \ b).  Theorems here are about that top level (Model/Subtype.v, with the
   emptiness of list and mapping components as a parameter) and about the list emptiness procedure (Model/ListEmpty.v:
   bdd_every_result, list_formula_is_empty, list_inhabited); the mapping emptiness procedure is judged by enumeration of
   values on the implementation (see DESIGN.md). *)
From Beff Require Import Model.Subtype Model.ListSpec Proofs.C05 Proofs.SemOps Proofs.ListSoundTop Proofs.ListCompleteTop.
From Beff Require Import Model.MappingEmpty Proofs.MappingSound Model.MappingEmptyIx Proofs.MappingIxBridge.

(* "two types are reported equivalent exactly when each is assignable to the other" *)
Theorem C05_same_type_is_mutual_assignability :
  forall struct_empty a b,
    sem_is_same struct_empty a b = Ok true <->
    sem_is_subtype struct_empty a b = Ok true /\ sem_is_subtype struct_empty b a = Ok true.
Proof. exact same_iff. Qed.

Theorem C05_same_type_answer :
  forall struct_empty a b x y,
    sem_is_subtype struct_empty a b = Ok x -> sem_is_subtype struct_empty b a = Ok y ->
    sem_is_same struct_empty a b = Ok (x && y).
Proof. exact same_false_iff. Qed.

(* the reduction the whole decision rests on *)
Theorem C05_assignability_is_emptiness_of_difference :
  forall struct_empty a b,
    sem_is_subtype struct_empty a b = (do d <- sem_diff a b; sem_is_empty struct_empty d).
Proof. reflexivity. Qed.

(* difference of semantic types is set difference of what they denote, for every valid point and every interpretation
   of the structural atoms (the SemType level of the C06 theorems: the merge of the two tag-sorted vectors) *)
Theorem C05_difference_is_set_difference :
  forall t1 t2 t pt,
    wf2 t1 = true -> wf2 t2 = true -> valid_point pt = true -> sem_diff t1 t2 = Ok t ->
    mem t pt = mem t1 pt && negb (mem t2 pt).
Proof. exact sem_diff_mem. Qed.

(* "assignable" answers are sound for every pair of well-formed types, structural components included, as soon as the
   emptiness oracle of lists and mappings is sound on the structured points values realise *)
Theorem C05_assignable_implies_inclusion :
  forall struct_empty (realisable : (atom -> bool) -> Prop),
    (forall p u rho, struct_empty p = Ok true -> realisable rho -> pmem p (PtStruct u rho) = false) ->
    forall a b, wf2 a = true -> wf2 b = true -> sem_is_subtype struct_empty a b = Ok true ->
    forall pt, real_point realisable pt -> mem a pt = true -> mem b pt = true.
Proof. exact subtype_sound. Qed.

(* on the basic fragment (null, booleans, numbers, strings, their literals, unions, differences) the decision is exact:
   together with the theorem above (no structural component: the oracle is never asked), assignability coincides with
   inclusion of the denoted sets *)
Theorem C05_basic_types_assignability_is_inclusion :
  forall a b,
    wf2 a = true -> wf2 b = true ->
    (forall q, In q (st_data a) -> basic_proper q = true) -> (forall q, In q (st_data b) -> basic_proper q = true) ->
    N.land (st_all a) VAL = st_all a ->
    (sem_is_subtype no_struct a b = Ok true -> forall pt, valid_point pt = true -> mem a pt = true -> mem b pt = true) /\
    (sem_is_subtype no_struct a b = Ok false -> exists pt, valid_point pt = true /\ mem a pt = true /\ mem b pt = false).
Proof.
  intros a b Wa Wb Ba Bb Hv. split.
  - intros Hs pt Hp. apply (subtype_sound no_struct (fun _ => True)); auto.
    + intros p u rho H. destruct p; discriminate H.
    + split; [exact Hp|]. destruct pt; exact I.
  - apply subtype_complete_basic; assumption.
Qed.

(* ---- lists.  Values are points or lists of values (Model/ListSpec.v); a list atom (prefix types, rest type) contains the
        lists that have at least the prefix, element-wise, and whose remaining elements are in the rest type.  For every table
        of list atoms with well-formed element types, every pair of well-formed types, every fuel (= nesting depth explored;
        recursive list types run the model out of fuel, they are outside the theorem): if the procedure answers "assignable",
        every value of the first type is a value of the second.  The oracle for mappings / Map / Set stays a parameter. ---- *)
Theorem C05_list_types_assignable_implies_inclusion :
  forall (tbl : ltable) (other_empty : proper -> res bool) (other_real : point -> Prop),
    (forall p pt, other_empty p = Ok true -> other_real pt -> pmem p pt = false) ->
    (forall i la, lookup_latom i tbl = Some la -> Forall (fun t => wf2 t = true) (la_prefix la) /\ wf2 (la_items la) = true) ->
    forall f a b, wf2 a = true -> wf2 b = true -> sem_is_subtype_l tbl other_empty f a b = Ok true ->
    forall v, lval_ok other_real v -> vmem tbl v a = true -> vmem tbl v b = true.
Proof. exact list_subtype_sound. Qed.

(* types whose structural components are lists only (arrays, tuples, tuples with rest, nested; no oracle at all) *)
Corollary C05_list_only_types_assignable_implies_inclusion :
  forall (tbl : ltable),
    (forall i la, lookup_latom i tbl = Some la -> Forall (fun t => wf2 t = true) (la_prefix la) /\ wf2 (la_items la) = true) ->
    forall f a b, wf2 a = true -> wf2 b = true -> sem_is_subtype_l tbl no_struct f a b = Ok true ->
    forall v, lval_ok (fun _ => True) v -> vmem tbl v a = true -> vmem tbl v b = true.
Proof.
  intros tbl Ht. apply (list_subtype_sound tbl no_struct (fun _ => True)); [|exact Ht].
  intros p pt H. discriminate H.
Qed.

(* the converse on the same fragment: a "not assignable" answer comes with a value of the first type that is not a value of the
   second (types whose `all` bits are tags; element types of the atoms likewise) — so for list-only types the decision is exact *)
Theorem C05_list_only_types_not_assignable_has_a_separating_value :
  forall (tbl : ltable),
    (forall i la, lookup_latom i tbl = Some la -> Forall good2 (la_prefix la) /\ good2 (la_items la)) ->
    forall f a b, good2 a -> good2 b -> sem_is_subtype_l tbl no_struct f a b = Ok false ->
    exists v, lval_ok (fun _ => True) v /\ vmem tbl v a = true /\ vmem tbl v b = false.
Proof. exact list_subtype_complete. Qed.

Corollary C05_list_only_types_assignability_is_inclusion :
  forall (tbl : ltable),
    (forall i la, lookup_latom i tbl = Some la -> Forall good2 (la_prefix la) /\ good2 (la_items la)) ->
    forall f a b d, good2 a -> good2 b -> sem_is_subtype_l tbl no_struct f a b = Ok d ->
    (d = true <-> forall v, lval_ok (fun _ => True) v -> vmem tbl v a = true -> vmem tbl v b = true).
Proof.
  intros tbl Ht f a b d Ga Gb H.
  assert (Ht1 : forall i la, lookup_latom i tbl = Some la -> Forall (fun t => wf2 t = true) (la_prefix la) /\ wf2 (la_items la) = true).
  { intros i la Hl. destruct (Ht i la Hl) as [H1 [H2 _]]. split; [|exact H2].
    apply Forall_forall. intros t Hin. exact (proj1 (proj1 (Forall_forall _ _) H1 t Hin)). }
  destruct d; split.
  - intros _. apply (C05_list_only_types_assignable_implies_inclusion tbl Ht1 f a b (proj1 Ga) (proj1 Gb) H).
  - reflexivity.
  - discriminate.
  - intros Hinc. destruct (list_subtype_complete tbl Ht f a b Ga Gb H) as (v & Hv & Ha & Hb). rewrite (Hinc v Hv Ha) in Hb. discriminate.
Qed.

(* non-vacuity, and the two shapes on which the pinned tree answered wrongly before the repairs 10e351d / 09b6a21:
   L0 = [null, ...(number|string)[]], L1 = [null|number, ...string[]], L2 = [null, number, ...any[]], L3 = string[], L4 = [string] *)
Definition tNull := mkSem (stag_code TgNull) [].   Definition tNum := mkSem (stag_code TgNumber) [].
Definition tStr := mkSem (stag_code TgString) [].  Definition tNumStr := mkSem (N.lor (stag_code TgNumber) (stag_code TgString)) [].
Definition ex_tbl : ltable :=
  [(0%N, mkLatom [tNull] tNumStr); (1%N, mkLatom [mkSem (N.lor (stag_code TgNull) (stag_code TgNumber)) []] tStr);
   (2%N, mkLatom [tNull; tNum] sem_unknown); (3%N, mkLatom [] tStr); (4%N, mkLatom [tStr] sem_never)].
Definition lst (i : N) : semtype := mkSem 0 [PList (from_atom (mkAtom AList i))].
Definition lst2 (i j : N) : semtype := mkSem 0 [PList (BNode (mkAtom AList i) BTrue (from_atom (mkAtom AList j)) BFalse)].
Definition lst_and (i j : N) : semtype := mkSem 0 [PList (BNode (mkAtom AList i) (from_atom (mkAtom AList j)) BFalse BFalse)].
Example C05_lists_nonvacuous :
  (forall i la, lookup_latom i ex_tbl = Some la -> Forall (fun t => wf2 t = true) (la_prefix la) /\ wf2 (la_items la) = true) /\
  sem_is_subtype_l ex_tbl no_struct 5 (lst 4) (lst 3) = Ok true /\            (* [string] <= string[] *)
  sem_is_subtype_l ex_tbl no_struct 5 (lst 3) (lst 4) = Ok false /\
  sem_is_subtype_l ex_tbl no_struct 5 (lst 0) (lst2 1 2) = Ok false /\        (* [null, "b", 1] separates them *)
  sem_is_empty_l ex_tbl no_struct 5 (lst_and 3 4) = Ok false /\               (* string[] & [string] has the value ["a"] *)
  sem_is_empty_l ex_tbl no_struct 5 (lst_and 4 3) = Ok false /\
  vmem ex_tbl (LList [LPt (PtUnit TgNull); LPt (PtStr "b"); LPt (PtNum 1)]) (lst 0) = true /\
  vmem ex_tbl (LList [LPt (PtUnit TgNull); LPt (PtStr "b"); LPt (PtNum 1)]) (lst2 1 2) = false.
Proof.
  split.
  - intros i la H. unfold ex_tbl in H. cbn [lookup_latom] in H.
    repeat (match type of H with (if ?c then _ else _) = _ => destruct c end; [inversion H; subst; split; [repeat constructor|reflexivity]|]).
    discriminate H.
  - repeat split; vm_compute; reflexivity.
Qed.

(* non-vacuity: "a" | 1 is assignable to string | 1 | 2 and not the other way round *)
Definition ex_a : semtype := mkSem 0 [PNumber true [NLit 1]; PString true [STpl [TplConst "a"]]].
Definition ex_b : semtype := mkSem (stag_code TgString) [PNumber true [NLit 1; NLit 2]].
Example C05_nonvacuous :
  wf2 ex_a = true /\ wf2 ex_b = true /\ N.land (st_all ex_a) VAL = st_all ex_a /\
  sem_is_subtype no_struct ex_a ex_b = Ok true /\ sem_is_subtype no_struct ex_b ex_a = Ok false /\
  sem_is_same no_struct ex_a ex_b = Ok false /\ sem_is_same no_struct ex_a ex_a = Ok true.
Proof. repeat split; vm_compute; reflexivity. Qed.

(* ---- objects.  One clause of the mapping component (Model/MappingEmpty.v check_mapping_empty = mapping.rs check_mapping_empty
        without index signatures): a positive field list and negative field lists.  A record maps every key to a value; a key the
        record does not have is mapped to the value of the absent-property type.  The positive is read exactly (an undeclared
        key is absent), the negatives openly (only declared keys are constrained) - the two readings the engine itself uses.
        For field types without structural components (null, booleans, numbers, strings, literals, unions, differences, optional):
        the clause is reported empty exactly when every exact record of the positive is an open record of some negative, and a
        "not empty" answer comes with a separating record.  (Nested objects need the same statement one level down: the abstract
        version in Proofs/MappingSound.v, Section MapLevel, is parametric in the element level.) ---- *)
Theorem C05_flat_object_clause_empty_iff_covered :
  forall negs pos,
    wf_fields pos -> bgood_fields pos -> Forall (fun n => NoDup (keys n) /\ bgood_fields n) negs ->
    (check_mapping_empty bempty negs pos = Ok true ->
       forall r : brecord, bexact pos r -> exists n, In n negs /\ bopen n r) /\
    (check_mapping_empty bempty negs pos = Ok false ->
       exists r : brecord, bexact pos r /\ forall n, In n negs -> not_open BV bvm n r).
Proof.
  intros negs pos Hw Hg Hn. split.
  - apply flat_object_check_sound; assumption.
  - apply flat_object_check_complete; [exact Hg|]. eapply Forall_impl; [|exact Hn]. intros a [_ H]. exact H.
Qed.

(* ---- the same for a conjunction of positive object atoms (an intersection of object types reaches the decider as several
        positive atoms): `meet_fields` merges them key by key, reading a key an atom does not declare as unconstrained, and the merged
        field list is read exactly.  `bpos_reading ps r`: r is an open record of every atom of ps and has no key that none of them
        declares - the engine's own reading of such a conjunction (not TypeScript's intersection of exact types: the listed finding
        intersection_of_object_types_in_assignability is about the difference).  With that reading the clause decider is exact. ---- *)
Theorem C05_flat_object_conjunction_empty_iff_covered :
  forall pos neg,
    Forall bgood_atom pos -> Forall (fun n => NoDup (keys (ma_fields n)) /\ bgood_atom n) neg ->
    (mapping_clause_is_empty bempty pos neg = Ok true ->
       forall r : brecord, bpos_reading (map ma_fields pos) r -> exists n, In n neg /\ bopen (ma_fields n) r) /\
    (mapping_clause_is_empty bempty pos neg = Ok false ->
       exists r : brecord, bpos_reading (map ma_fields pos) r /\ forall n, In n neg -> not_open BV bvm (ma_fields n) r).
Proof.
  intros pos neg Hp Hn. split.
  - apply flat_object_clause_sound; assumption.
  - apply flat_object_clause_complete; [exact Hp|]. eapply Forall_impl; [|exact Hn]. intros a [_ H]. exact H.
Qed.

(* ---- the decider that is tied to the engine also on atoms with `string` index signatures (Model/MappingEmptyIx.v x_check) is, on atoms
        without index signature, the function the two theorems above are about ---- *)
Theorem C05_index_aware_decider_agrees_on_index_free_atoms :
  forall is_empty negs pos,
    x_check is_empty (map plain negs) (plain pos) = check_mapping_empty is_empty negs pos.
Proof. exact x_check_plain. Qed.

(* non-vacuity: {a: string, b?: number} against {a: string | number} (covered) and against {a: string, b: number} (b may be absent) *)
Definition c05_str : semtype := mkSem (stag_code TgString) [].
Definition c05_num : semtype := mkSem (stag_code TgNumber) [].
Definition c05_strnum : semtype := mkSem (N.lor (stag_code TgString) (stag_code TgNumber)) [].
Definition c05_optnum : semtype := mkSem (N.lor (stag_code TgNumber) (stag_code TgOptionalProp)) [].
Example C05_flat_objects_nonvacuous :
  check_mapping_empty bempty [[("a", c05_strnum)]] [("a", c05_str); ("b", c05_optnum)] = Ok true /\
  check_mapping_empty bempty [[("a", c05_str); ("b", c05_num)]] [("a", c05_str); ("b", c05_optnum)] = Ok false /\
  wf_fields [("a", c05_str); ("b", c05_optnum)] /\ bgood_fields [("a", c05_str); ("b", c05_optnum)].
Proof.
  split; [vm_compute; reflexivity|split; [vm_compute; reflexivity|split]].
  - split; [repeat constructor|repeat constructor; cbn; intuition discriminate].
  - intros k t [E|[E|[]]]; injection E as _ <-; (split; [reflexivity|split; [intros q []|reflexivity]]).
Qed.

Print Assumptions C05_same_type_is_mutual_assignability.
Print Assumptions C05_same_type_answer.
Print Assumptions C05_assignability_is_emptiness_of_difference.
Print Assumptions C05_difference_is_set_difference.
Print Assumptions C05_assignable_implies_inclusion.
Print Assumptions C05_basic_types_assignability_is_inclusion.
Print Assumptions C05_list_types_assignable_implies_inclusion.
Print Assumptions C05_list_only_types_assignable_implies_inclusion.
Print Assumptions C05_list_only_types_not_assignable_has_a_separating_value.
Print Assumptions C05_list_only_types_assignability_is_inclusion.
Print Assumptions C05_flat_object_clause_empty_iff_covered.
Print Assumptions C05_flat_object_conjunction_empty_iff_covered.
Print Assumptions C05_index_aware_decider_agrees_on_index_free_atoms.
