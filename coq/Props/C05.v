(* Props/C05.v — property C05: assignability decisions coincide with inclusion of value sets.  Statements only.
   The decision is  is_subtype(a, b) = is_empty(a \ b).  Theorems here are about that top level (Model/Subtype.v, with the
   emptiness of list and mapping components as a parameter); the list and mapping emptiness procedures themselves are
   judged by enumeration of values on the implementation (see DESIGN.md). *)
From Beff Require Import Model.Subtype Proofs.C05 Proofs.SemOps.

(* "two types are reported equivalent exactly when each is assignable to the other" *)
Theorem C05_same_type_is_mutual_assignability :
  forall struct_empty a b,
    sem_is_same struct_empty a b = Ok true <->
    sem_is_subtype struct_empty a b = Ok true /\ sem_is_subtype struct_empty b a = Ok true.
Proof. exact same_iff. Qed.

Theorem C05_same_type_answer :
  forall struct_empty a b x y,
    sem_is_subtype struct_empty a b = Ok x -> sem_is_subtype struct_empty b a = Ok y ->
    sem_is_same struct_empty a b = Ok (x && y).
Proof. exact same_false_iff. Qed.

(* the reduction the whole decision rests on *)
Theorem C05_assignability_is_emptiness_of_difference :
  forall struct_empty a b,
    sem_is_subtype struct_empty a b = (do d <- sem_diff a b; sem_is_empty struct_empty d).
Proof. reflexivity. Qed.

(* difference of semantic types is set difference of what they denote, for every valid point and every interpretation
   of the structural atoms (the SemType level of the C06 theorems: the merge of the two tag-sorted vectors) *)
Theorem C05_difference_is_set_difference :
  forall t1 t2 t pt,
    wf2 t1 = true -> wf2 t2 = true -> valid_point pt = true -> sem_diff t1 t2 = Ok t ->
    mem t pt = mem t1 pt && negb (mem t2 pt).
Proof. exact sem_diff_mem. Qed.

(* "assignable" answers are sound for every pair of well-formed types, structural components included, as soon as the
   emptiness oracle of lists and mappings is sound on the structured points values realise *)
Theorem C05_assignable_implies_inclusion :
  forall struct_empty (realisable : (atom -> bool) -> Prop),
    (forall p u rho, struct_empty p = Ok true -> realisable rho -> pmem p (PtStruct u rho) = false) ->
    forall a b, wf2 a = true -> wf2 b = true -> sem_is_subtype struct_empty a b = Ok true ->
    forall pt, real_point realisable pt -> mem a pt = true -> mem b pt = true.
Proof. exact subtype_sound. Qed.

(* on the basic fragment (null, booleans, numbers, strings, their literals, unions, differences) the decision is exact:
   together with the theorem above (no structural component: the oracle is never asked), assignability coincides with
   inclusion of the denoted sets *)
Theorem C05_basic_types_assignability_is_inclusion :
  forall a b,
    wf2 a = true -> wf2 b = true ->
    (forall q, In q (st_data a) -> basic_proper q = true) -> (forall q, In q (st_data b) -> basic_proper q = true) ->
    N.land (st_all a) VAL = st_all a ->
    (sem_is_subtype no_struct a b = Ok true -> forall pt, valid_point pt = true -> mem a pt = true -> mem b pt = true) /\
    (sem_is_subtype no_struct a b = Ok false -> exists pt, valid_point pt = true /\ mem a pt = true /\ mem b pt = false).
Proof.
  intros a b Wa Wb Ba Bb Hv. split.
  - intros Hs pt Hp. apply (subtype_sound no_struct (fun _ => True)); auto.
    + intros p u rho H. destruct p; discriminate H.
    + split; [exact Hp|]. destruct pt; exact I.
  - apply subtype_complete_basic; assumption.
Qed.

(* non-vacuity: "a" | 1 is assignable to string | 1 | 2 and not the other way round *)
Definition ex_a : semtype := mkSem 0 [PNumber true [NLit 1]; PString true [STpl [TplConst "a"]]].
Definition ex_b : semtype := mkSem (stag_code TgString) [PNumber true [NLit 1; NLit 2]].
Example C05_nonvacuous :
  wf2 ex_a = true /\ wf2 ex_b = true /\ N.land (st_all ex_a) VAL = st_all ex_a /\
  sem_is_subtype no_struct ex_a ex_b = Ok true /\ sem_is_subtype no_struct ex_b ex_a = Ok false /\
  sem_is_same no_struct ex_a ex_b = Ok false /\ sem_is_same no_struct ex_a ex_a = Ok true.
Proof. repeat split; vm_compute; reflexivity. Qed.

Print Assumptions C05_same_type_is_mutual_assignability.
Print Assumptions C05_same_type_answer.
Print Assumptions C05_assignability_is_emptiness_of_difference.
Print Assumptions C05_difference_is_set_difference.
Print Assumptions C05_assignable_implies_inclusion.
Print Assumptions C05_basic_types_assignability_is_inclusion.
