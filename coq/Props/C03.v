(* Props/C03.v — property C03: validate / safeParse / parse agree; parsed data is a faithful projection.
   Statements only; proofs in Proofs/C03.v. *)
From Beff Require Import Model.Known Model.RuntimeSpec Proofs.C03 Proofs.C03Data.

Definition no_formats : formats := {| sfmt := fun _ => None; nfmt := fun _ => None |}.

(* ---- clause 1: the three entry points agree — for every tree, environment, value, options ---- *)
Theorem C03_safeParse_success_iff_validate :
  forall F env f strict order r v d,
    safe_parse F env f strict order r v = Ok (PSuccess d) <->
    (validate F env f strict r v = Ok true /\ parse F env strict order f r v = Ok d).
Proof.
  intros; split.
  - apply safe_parse_success.
  - intros [H1 H2]. apply validate_true_safe_parse; assumption.
Qed.

Theorem C03_safeParse_failure_means_rejected :
  forall F env f strict order r v es,
    safe_parse F env f strict order r v = Ok (PFailure es) -> validate F env f strict r v = Ok false.
Proof. intros. eapply safe_parse_failure; eauto. Qed.

Theorem C03_parse_returns_iff_safeParse_succeeds :
  forall F env f strict order name r v d,
    parse_top F env f strict order name r v = Ok (POk d) <-> safe_parse F env f strict order r v = Ok (PSuccess d).
Proof. intros; apply parse_top_ok. Qed.

Theorem C03_parse_failure_means_rejected :
  forall F env f strict order name r v m,
    parse_top F env f strict order name r v = Ok (PFail m) -> validate F env f strict r v = Ok false.
Proof. intros; eapply parse_top_fail; eauto. Qed.

(* ---- clause 2: no input makes validate throw.  Full statement, refutation, and what holds ---- *)
Definition C03_validate_never_throws : Prop :=
  forall F env f strict r v e, validate F env f strict r v = Throw e -> e = EOutOfFuel.

(* discriminator *value* "toString": this.mapping[d] finds Object.prototype.toString *)
Definition c03_witness_rt : rt :=
  RDisc [] "kind" [("a", RObject [("kind", RConst (CStr "a"))] [])] [].
Theorem C03_refuted_validate_throws : ~ C03_validate_never_throws.
Proof.
  intros H. specialize (H no_formats [] 5 false c03_witness_rt (VObj [("kind", VStr "toString")]) ENotFunction).
  vm_compute in H. specialize (H eq_refl). discriminate H.
Qed.

Theorem C03_validate_never_throws_except_known :
  forall F env f strict r v e,
    nodisc_closed_env env = true -> nodisc_closed env r = true ->
    validate F env f strict r v = Throw e -> e = EOutOfFuel.
Proof. intros; eapply validate_total; eauto. Qed.

(* ---- clause 3: the returned data is accepted by the same validator under the same options.
        Refuted by the unchanged code: a Map that goes through a union comes back as {} (deepmerge's clone),
        which the validator then rejects ---- *)
Definition C03_data_revalidates : Prop :=
  forall F env f strict order r v d,
    safe_parse F env f strict order r v = Ok (PSuccess d) -> validate F env f strict r d = Ok true.
Theorem C03_refuted_projection : ~ C03_data_revalidates.
Proof.
  intros H.
  specialize (H no_formats [] 10 false OrderInput
                (RAnyOf [RMap (RTypeof TyString) (RTypeof TyNumber); RNullish "null"])
                (VMap [(VStr "a", VNum (NInt 1))]) (VObj [])).
  vm_compute in H. specialize (H eq_refl). discriminate H.
Qed.

(* ---- what holds: on validator trees without unions, intersections, discriminated dispatch and index signatures, with distinct
        property names none of which is an Object.prototype member (`dfrag`), and for inputs without typed arrays (listed
        finding inherited_length_satisfies_declared_property): the data safeParse returns is accepted by the same validator
        under every option, in particular under the same options and with undeclared keys disallowed — it consists of
        declared parts only.  Every environment of such trees, every value, both key orders, all fuels. ---- *)
Theorem C03_data_is_accepted_again_except_known :
  forall F env, dfrag_env env = true ->
  forall f strict order r v d s',
    dfrag r = true -> no_typed v = true ->
    safe_parse F env f strict order r v = Ok (PSuccess d) ->
    validate F env f s' r d = Ok true.
Proof.
  intros F env He f strict order r v d s' Hd Hn H.
  destruct (proj1 (C03_safeParse_success_iff_validate F env f strict order r v d) H) as [Hv Hp].
  exact (parse_revalidates F env He f strict order r v d s' Hd Hn Hv Hp).
Qed.

(* the typed-array finding on the model: {length: number} accepts a Uint8Array and the returned {} is rejected *)
Theorem C03_refuted_for_typed_arrays :
  exists d, safe_parse no_formats [] 10 false OrderInput (RObject [("length", RTypeof TyNumber)] []) (VTyped Uint8Array [1; 2; 3]%Z) = Ok (PSuccess d) /\
            validate no_formats [] 10 false (RObject [("length", RTypeof TyNumber)] []) d = Ok false.
Proof. eexists. split; vm_compute; reflexivity. Qed.

(* non-vacuity: a recursive named type, an index signature, a union: all three agree and the data projects *)
Definition c03_ex_env : renv := [("T", RObject [("v", RTypeof TyNumber); ("next", ROptional (RRef "T"))] [])].
Definition c03_ex_rt : rt :=
  RObject [("t", RRef "T"); ("u", RAnyOf [RTypeof TyString; RNullish "null"])] [(RTypeof TyString, RTypeof TyBoolean)].
Definition c03_ex_val : val :=
  VObj [("t", VObj [("v", VNum (NInt 1)); ("zz", VNull)]); ("u", VStr "s"); ("flag", VBool true)].
Definition c03_ex_data : val :=
  VObj [("t", VObj [("v", VNum (NInt 1))]); ("u", VStr "s"); ("flag", VBool true)].
Example C03_nonvacuous :
  nodisc_closed_env c03_ex_env = true /\ nodisc_closed c03_ex_env c03_ex_rt = true /\
  validate no_formats c03_ex_env 20 false c03_ex_rt c03_ex_val = Ok true /\
  safe_parse no_formats c03_ex_env 20 false OrderInput c03_ex_rt c03_ex_val = Ok (PSuccess c03_ex_data) /\
  is_projection 20 c03_ex_data c03_ex_val = true /\
  validate no_formats c03_ex_env 20 false c03_ex_rt c03_ex_data = Ok true.
Proof. repeat split; vm_compute; reflexivity. Qed.

Print Assumptions C03_safeParse_success_iff_validate.
Print Assumptions C03_parse_returns_iff_safeParse_succeeds.
Print Assumptions C03_validate_never_throws_except_known.
Print Assumptions C03_refuted_validate_throws.
Print Assumptions C03_refuted_projection.
Print Assumptions C03_data_is_accepted_again_except_known.
Print Assumptions C03_refuted_for_typed_arrays.
