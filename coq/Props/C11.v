(* Props/C11.v — property C11: strict mode rejects exactly the values that carry undeclared keys.
   Only statements; the proofs are in Proofs/C11.v. *)
From Beff Require Import Model.StrictSpec Proofs.C11.

(* The property at full strength: for every validator tree, named environment, value (and fuel large
   enough for the three evaluations to terminate normally),
       validate {strict} = validate {default} && no undeclared key at any object position. *)
Definition C11_full : Prop :=
  forall (F : formats) (env : renv) (f : nat) (r : rt) (v : val) (s l n : bool),
    validate F env f true r v = Ok s ->
    validate F env f false r v = Ok l ->
    (if l then no_extra F env f [] r v else Ok false) = Ok n ->
    s = l && n.

Definition no_formats : formats := {| sfmt := fun _ => None; nfmt := fun _ => None |}.

(* The faithful model of the unchanged code does not satisfy it: `A & B` with named object types. *)
Definition c11_witness_env : renv :=
  [("A", RObject [("a", RTypeof TyString)] []); ("B", RObject [("b", RTypeof TyNumber)] [])].
Definition c11_witness_rt : rt := RAllOf [RRef "A"; RRef "B"].
Definition c11_witness_val : val := VObj [("a", VStr "x"); ("b", VNum (NInt 1))].

Theorem C11_refuted : ~ C11_full.
Proof.
  intros H.
  specialize (H no_formats c11_witness_env 10 c11_witness_rt c11_witness_val false true true).
  vm_compute in H. specialize (H eq_refl eq_refl eq_refl). discriminate H.
Qed.

(* What holds: outside the known call site (an intersection reaching the runtime with two or more
   members, in the tree or in the named environment) the property holds for all trees and all values. *)
Theorem C11_except_known :
  forall (F : formats) (env : renv) (f : nat) (r : rt) (v : val) (s l n : bool),
    c11_plain_env env = true -> c11_plain r = true ->
    validate F env f true r v = Ok s ->
    validate F env f false r v = Ok l ->
    (if l then no_extra F env f [] r v else Ok false) = Ok n ->
    s = l && n.
Proof. intros; eapply strict_is_lax_and_no_extra; eauto. Qed.

(* Half of it holds for every tree, known class included: strict acceptance implies default acceptance. *)
Theorem C11_strict_implies_default :
  forall (F : formats) (env : renv) (f : nat) (r : rt) (v : val) (l : bool),
    validate F env f true r v = Ok true -> validate F env f false r v = Ok l -> l = true.
Proof. intros F env f r v l H. apply (strict_below_lax F env f r v H). Qed.

(* The hypotheses are satisfiable by non-trivial states: a nested object type with an index signature,
   a union and a named recursive type; one accepted and one rejected value. *)
Definition c11_example_env : renv :=
  [("T", RObject [("v", RTypeof TyNumber); ("next", ROptional (RRef "T"))] [])].
Definition c11_example_rt : rt :=
  RObject [("t", RRef "T"); ("u", RAnyOf [RTypeof TyString; RObject [("k", RConst (CStr "a"))] []])]
          [(RTypeof TyString, RTypeof TyBoolean)].
Example C11_nonvacuous :
  c11_plain_env c11_example_env = true /\ c11_plain c11_example_rt = true /\
  (let v := VObj [("t", VObj [("v", VNum (NInt 1)); ("next", VObj [("v", VNum (NInt 2))])]);
                  ("u", VObj [("k", VStr "a")]); ("flag", VBool true)] in
   validate no_formats c11_example_env 20 true c11_example_rt v = Ok true /\
   validate no_formats c11_example_env 20 false c11_example_rt v = Ok true /\
   no_extra no_formats c11_example_env 20 [] c11_example_rt v = Ok true) /\
  (let v := VObj [("t", VObj [("v", VNum (NInt 1)); ("zz", VNull)]); ("u", VStr "s")] in
   validate no_formats c11_example_env 20 true c11_example_rt v = Ok false /\
   validate no_formats c11_example_env 20 false c11_example_rt v = Ok true /\
   no_extra no_formats c11_example_env 20 [] c11_example_rt v = Ok false).
Proof. vm_compute. repeat split; reflexivity. Qed.

Print Assumptions C11_refuted.
Print Assumptions C11_except_known.
Print Assumptions C11_strict_implies_default.
