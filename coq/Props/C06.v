(* Props/C06.v — property C06: union, intersection, difference, complement are exact set operations;
   the normal forms (three-way diagrams, DNF and back) never change membership.
   Statements only; proofs in Proofs/Bdd.v, Proofs/SemType.v, Proofs/SemOps.v. *)
From Beff Require Import Model.SemSpec Proofs.Bdd Proofs.SemType Proofs.SemOps.

(* ---- decision diagrams: for every truth assignment of the atoms (i.e. for every value, whatever lists and
        mappings mean), every diagram — no bound on atoms, size or shape ---- *)
Theorem C06_union : forall rho f b1 b2 b, union f b1 b2 = Some b -> eval rho b = eval rho b1 || eval rho b2.
Proof. intros rho f. exact (union_sound rho f). Qed.
Theorem C06_intersect : forall rho f b1 b2 b, intersect f b1 b2 = Some b -> eval rho b = eval rho b1 && eval rho b2.
Proof. exact intersect_sound. Qed.
Theorem C06_diff : forall rho f b1 b2 b, diff f b1 b2 = Some b -> eval rho b = eval rho b1 && negb (eval rho b2).
Proof. exact diff_sound. Qed.
Theorem C06_complement : forall rho f b c, complement f b = Some c -> eval rho c = negb (eval rho b).
Proof. exact complement_sound. Qed.
Theorem C06_from_node :
  forall rho f a l m r b, from_node f a l m r = Some b ->
                          eval rho b = (rho a && eval rho l) || eval rho m || (negb (rho a) && eval rho r).
Proof. exact from_node_sound. Qed.

(* ---- normal forms ---- *)
Theorem C06_bdd_to_dnf : forall rho b, eval_dnf rho (bdd_to_dnf b) = eval rho b.
Proof. exact bdd_to_dnf_sound. Qed.
Theorem C06_dnf_to_bdd : forall rho f d b, dnf_to_bdd f d = Some b -> eval rho b = eval_dnf rho d.
Proof. exact dnf_to_bdd_sound. Qed.

(* ---- tag codes regenerated from subtype.rs are the distinct bits the model uses ---- *)
Theorem C06_tag_codes :
  map (fun t => (stag_name t, stag_shift t)) all_stags = subtype_tag_shifts_source /\ VAL = val_mask_source
  /\ NoDup (map stag_shift all_stags).
Proof.
  split; [reflexivity|]. split; [reflexivity|].
  repeat constructor; cbn; intuition discriminate.
Qed.

(* ---- literal sets (sub_vec_union / intersect / diff), whenever is_subtype is equality on the elements ---- *)
Theorem C06_literal_sets :
  forall (K : Type) (eqb : K -> K -> bool) (is_sub : K -> K -> res bool) (leb : K -> K -> bool) (lit : K -> bool),
    (forall a b, eqb a b = true <-> a = b) ->
    (forall a b, lit a = true -> lit b = true -> is_sub a b = Ok (eqb a b)) ->
    forall v1 v2, forallb lit v1 = true -> forallb lit v2 = true ->
      (exists v, sub_vec_union is_sub leb v1 v2 = Ok v /\ forall x, In x v <-> In x v1 \/ In x v2) /\
      (exists v, sub_vec_intersect is_sub eqb leb v1 v2 = Ok v /\ forall x, In x v <-> In x v1 /\ In x v2) /\
      (exists v, sub_vec_diff is_sub leb v1 v2 = Ok v /\ forall x, In x v <-> In x v1 /\ ~ In x v2).
Proof.
  intros K eqb is_sub leb lit He Hs v1 v2 H1 H2. repeat split.
  - destruct (sub_vec_union_lit eqb He is_sub leb lit Hs v1 v2 H1 H2) as [v [E [_ H]]]. eauto.
  - destruct (sub_vec_intersect_lit eqb He is_sub leb lit Hs v1 v2 H1 H2) as [v [E [_ H]]]. eauto.
  - destruct (sub_vec_diff_lit eqb He is_sub leb lit Hs v1 v2 H1 H2) as [v [E [_ H]]]. eauto.
Qed.

(* ---- whole semantic types (SemTypeOps::union / intersect / diff / complement): the bit sets, the merge of the two
        tag-sorted vectors of proper subtypes (SubTypePairIterator) and the per-tag operations together compute the set
        operation on what the types denote — for every valid point, i.e. every value whatever lists and mappings mean
        (any valuation rho of the atoms), and all well-formed types whose literal sets are literals (wf2: tags strictly
        increasing, no tag both in `all` and in the vector, non-empty literal lists; formats and void/undefined are
        outside, as the property states) ---- *)
Theorem C06_semtype_union :
  forall t1 t2 t pt, wf2 t1 = true -> wf2 t2 = true -> valid_point pt = true -> sem_union t1 t2 = Ok t ->
                     mem t pt = mem t1 pt || mem t2 pt.
Proof. exact sem_union_mem. Qed.
Theorem C06_semtype_intersect :
  forall t1 t2 t pt, wf2 t1 = true -> wf2 t2 = true -> valid_point pt = true -> sem_intersect t1 t2 = Ok t ->
                     mem t pt = mem t1 pt && mem t2 pt.
Proof. exact sem_intersect_mem. Qed.
Theorem C06_semtype_diff :
  forall t1 t2 t pt, wf2 t1 = true -> wf2 t2 = true -> valid_point pt = true -> sem_diff t1 t2 = Ok t ->
                     mem t pt = mem t1 pt && negb (mem t2 pt).
Proof. exact sem_diff_mem. Qed.
Theorem C06_semtype_complement :
  forall t c pt, wf2 t = true -> valid_point pt = true -> sem_complement t = Ok c -> mem c pt = negb (mem t pt).
Proof. exact sem_complement_mem. Qed.

(* non-vacuity of the SemType theorems: two well-formed types with literal sets and structural parts *)
Definition st1 : semtype := mkSem (stag_code TgNull) [PNumber true [NLit 1; NLit 2]; PString false [STpl [TplConst "a"]]; PMapping (from_atom (mkAtom AMapping 0))].
Definition st2 : semtype := mkSem (stag_code TgNumber) [PBoolean true; PString true [STpl [TplConst "a"]; STpl [TplConst "b"]]; PMapping (from_atom (mkAtom AMapping 1))].
Example C06_semtype_nonvacuous :
  wf2 st1 = true /\ wf2 st2 = true /\
  (exists d, sem_diff st1 st2 = Ok d /\ mem d (PtStr "c") = true /\ mem d (PtStr "b") = false /\ mem d (PtNum 1) = false /\ mem d (PtUnit TgNull) = true) /\
  (exists u, sem_union st1 st2 = Ok u /\ mem u (PtBool true) = true /\ mem u (PtBool false) = false) /\
  (exists i, sem_intersect st1 st2 = Ok i /\ mem i (PtNum 2) = true /\ mem i (PtNum 3) = false).
Proof. repeat split; try (eexists; repeat split); vm_compute; reflexivity. Qed.

(* non-vacuity: the operations succeed on non-trivial diagrams with ample fuel *)
Definition a0 := mkAtom AMapping 0.
Definition a1 := mkAtom AMapping 1.
Definition a2 := mkAtom AList 0.
Example C06_nonvacuous :
  exists b c d, union 50 (from_atom a0) (from_atom a1) = Some b /\ complement 50 b = Some c /\
                diff 50 (BNode a0 (from_atom a2) (from_atom a1) BTrue) c = Some d /\ d <> BFalse /\ d <> BTrue.
Proof. eexists. eexists. eexists. repeat split; try (vm_compute; reflexivity); discriminate. Qed.

Print Assumptions C06_union.
Print Assumptions C06_intersect.
Print Assumptions C06_diff.
Print Assumptions C06_complement.
Print Assumptions C06_dnf_to_bdd.
Print Assumptions C06_literal_sets.
Print Assumptions C06_semtype_union.
Print Assumptions C06_semtype_intersect.
Print Assumptions C06_semtype_diff.
Print Assumptions C06_semtype_complement.
