(* Props/C08.v — property C08: meaning-preserving rewrites of the source do not change validators.
   Statements only.  The compile-time optimisations the property names (literal-set dispatch, discriminator dispatch,
   hoisting) are shown invisible on the runtime trees; member/property order and comments are shown invisible to
   hash256 / hash(); the alias-boundary clause is refuted (Props/C13.v). *)
From Beff Require Import Model.Validate Model.Hash256Enc Proofs.C01 Proofs.C13.
From Coq Require Import Sorting.Permutation.

(* AnyOfConstsRuntype([c1..cn]) accepts exactly what the plain union of ConstRuntype(ci) accepts *)
Theorem C08_literal_set_dispatch_invisible :
  forall F env f strict cs v,
    forallb cst_not_nan cs = true ->
    validate F env (S (S f)) strict (RAnyOfConsts cs) v = validate F env (S (S f)) strict (RAnyOf (map RConst cs)) v.
Proof. exact consts_dispatch_is_union. Qed.

(* AnyOfDiscriminatedRuntype accepts exactly what the plain union of its members accepts, whenever the mapping sends
   every discriminator value of a member to that member (the shape the printer emits) *)
Theorem C08_discriminator_dispatch_invisible :
  forall F env f strict ss disc mapping smap v a b,
    (forall m, In m ss -> exists props p, member_shape disc m props p /\
                                         forall k, In k (disc_keys p) -> assoc k mapping = Some m) ->
    (forall k m, assoc k mapping = Some m -> In m ss /\ exists props p, member_shape disc m props p /\ In k (disc_keys p)) ->
    validate F env (S f) strict (RDisc ss disc mapping smap) v = Ok a ->
    validate F env (S f) strict (RAnyOf ss) v = Ok b ->
    a = b.
Proof. exact disc_dispatch_is_union. Qed.

(* reordering object properties / discriminator mappings / formats, and adding comments (descriptions), leaves the
   hash256 encoding and hash() unchanged *)
Theorem C08_property_order_invisible_to_hash256 :
  forall env f st props props' indexed,
    Permutation props props' -> NoDup (keys props) ->
    enc env f st (RObject props indexed) = enc env f st (RObject props' indexed).
Proof. exact enc_object_property_order. Qed.

Theorem C08_comments_invisible_to_hash256 :
  forall env f st d t, enc env (S f) st (RMeta d t) = enc env f st t.
Proof. exact enc_ignores_metadata. Qed.

Theorem C08_property_order_invisible_to_hash :
  forall env f seen props props' indexed,
    Permutation props props' -> NoDup (keys props) ->
    hash32 env f seen (RObject props indexed) = hash32 env f seen (RObject props' indexed).
Proof. exact hash32_object_property_order. Qed.

(* non-vacuity of the dispatch theorem: the emitted shape for {kind:"a",x:number} | {kind:"b"} *)
Definition c08_a : rt := RObject [("kind", RConst (CStr "a")); ("x", RTypeof TyNumber)] [].
Definition c08_b : rt := RObject [("kind", RConst (CStr "b"))] [].
Example C08_nonvacuous :
  let d := RDisc [c08_a; c08_b] "kind" [("a", c08_a); ("b", c08_b)] [] in
  validate {| sfmt := fun _ => None; nfmt := fun _ => None |} [] 10 false d (VObj [("kind", VStr "a"); ("x", VNum (NInt 1))]) = Ok true /\
  validate {| sfmt := fun _ => None; nfmt := fun _ => None |} [] 10 false d (VObj [("kind", VStr "b"); ("x", VStr "s")]) = Ok true /\
  validate {| sfmt := fun _ => None; nfmt := fun _ => None |} [] 10 false d (VObj [("kind", VStr "a")]) = Ok false.
Proof. cbv zeta. repeat split; vm_compute; reflexivity. Qed.

Print Assumptions C08_literal_set_dispatch_invisible.
Print Assumptions C08_discriminator_dispatch_invisible.
Print Assumptions C08_property_order_invisible_to_hash256.
