(* Props/C04.v — property C04: compilation is total.  Statements only.
   What a model can carry here is the recursion that the property names as "supposed to be cut": flattening unions
   through named references (extract_union), which the compiler performs without a visited set. *)
From Beff Require Import Model.Flatten Proofs.C04.

(* if no named type reaches itself through unions and references only (a height function exists), the recursion ends:
   fuel h(t)+1 is enough, for every environment and type *)
Theorem C04_union_flattening_terminates_when_acyclic :
  forall env h, union_height env h -> forall f t, h t < f -> extract_union f env t <> Throw EOutOfFuel.
Proof. exact extract_union_terminates. Qed.

(* full statement "the recursion always ends" is refuted by `type A = A | string` (stack overflow in the compiler) *)
Definition C04_union_flattening_always_terminates : Prop :=
  forall env t, exists f, extract_union f env t <> Throw EOutOfFuel.
Theorem C04_refuted_union_cycle_diverges : ~ C04_union_flattening_always_terminates.
Proof.
  intros H. destruct (H cyclic_env (IRef "A")) as [f Hf]. apply Hf. apply extract_union_cycle_diverges.
Qed.

(* non-vacuity: a recursive type whose cycle goes through an object has a height function *)
Definition c04_env : ienv := [("L", IAnyOf [IObject [("next", (true, IRef "L"))] None; INull])].
Definition c04_h (t : ir) : nat :=
  match t with IRef _ => 3 | IAnyOf _ => 2 | IMetaIR _ _ => 1 | _ => 0 end.
Example C04_nonvacuous :
  extract_union 4 c04_env (IRef "L") = Ok [IObject [("next", (true, IRef "L"))] None; INull].
Proof. vm_compute. reflexivity. Qed.

Print Assumptions C04_union_flattening_terminates_when_acyclic.
Print Assumptions C04_refuted_union_cycle_diverges.
