(* Props/C16.v — property C16: schema-printing contexts collect definitions independently of call order.
   Statements only. *)
From Beff Require Import Model.Schema Proofs.C16 Proofs.C16Refs.

(* ---- the returned schema and every stored definition body are functions of the validator alone: whatever the
        state of the context (what is already collected or in progress) and whatever the remaining fuel, two
        successful contextual prints of the same tree return the same JSON ---- *)
Theorem C16_schema_independent_of_context :
  forall env cf f1 f2 seen1 seen2 desc c1 c2 r j1 c1' j2 c2',
    schema env cf Contextual f1 seen1 desc c1 r = Ok (j1, c1') ->
    schema env cf Contextual f2 seen2 desc c2 r = Ok (j2, c2') ->
    j1 = j2.
Proof. intros. eapply schema_context_independent; eauto. apply hash_is_stable. Qed.

(* ---- a successful print never leaves a definition unfinished, only adds definitions, and every definition it
        adds is the body printed for that named type (hence, by the theorem above, the one a fresh context prints) ---- *)
Theorem C16_print_preserves_context_invariant :
  forall env cf f seen desc c r j c',
    schema env cf Contextual f seen desc c r = Ok (j, c') ->
    in_progress c' = in_progress c /\
    (forall n b, assoc n (collected c) = Some b -> assoc n (collected c') = Some b) /\
    (forall n b, assoc n (collected c') = Some b ->
                 assoc n (collected c) = Some b \/ defined_by env cf n b).
Proof. exact schema_preserves_invariant. Qed.

(* printing a named type that is already collected is a no-op on the context *)
Theorem C16_collected_ref_is_noop :
  forall env cf f seen c n t,
    assoc n env = Some t -> has_definition c n = true ->
    schema env cf Contextual (S f) seen None c (RRef n) = Ok (JObj [("$ref", JStr (get_ref cf n))], c).
Proof. exact collected_ref_noop. Qed.

(* non-vacuity / order independence on a concrete family sharing a recursive type (a test, by computation) *)
Definition c16_env : renv :=
  [("T", RObject [("kids", RArray (RRef "T")); ("u", RRef "U")] []);
   ("U", RAnyOf [RObject [("t", ROptional (RRef "T"))] []; RNullish "null"])].
Definition c16_p1 : rt := RObject [("a", RRef "T")] [].
Definition c16_p2 : rt := RArray (RRef "U").
Definition run_hist (calls : list rt) : option json :=
  match fold_left (fun acc r => match acc with
                                | Some c => match schema c16_env default_conf Contextual 50 [] None c r with
                                            | Ok p => Some (snd p) | Throw _ => None end
                                | None => None end) calls (Some empty_ctx) with
  | Some c => Some (JObj (sort_by (fun a b => str_leb (fst a) (fst b)) (collected c)))
  | None => None
  end.
Example C16_order_independent_example :
  run_hist [c16_p1; c16_p2] = run_hist [c16_p2; c16_p1; c16_p2; c16_p1] /\ run_hist [c16_p1; c16_p2] <> None.
Proof. split; [vm_compute; reflexivity|vm_compute; discriminate]. Qed.

(* ---- every $ref resolves: after any history of successful schemaWithContext calls on one context (any validators,
        any fuel, any configuration: ref template, container key, overrides) nothing is left in progress, and every
        reference (a "$ref" keyword anywhere outside the key position of a `properties` map, or a target of a
        discriminator mapping) of every returned schema and of every stored definition is `getRef(n)` for a name n
        whose definition is in the export. `reach` / `sref` / `resolves` are defined in Proofs/C16Refs.v. ---- *)
Theorem C16_every_ref_resolves_in_the_final_export :
  forall env cf c outs,
    reach env cf c outs ->
    in_progress c = [] /\
    (forall j s, In j outs -> sref j s -> resolves cf c s) /\
    (forall n b s, assoc n (collected c) = Some b -> sref b s -> resolves cf c s).
Proof. exact every_ref_resolves. Qed.

(* non-vacuity: a two-call history over the recursive family above is reachable, returns schemas with references and
   stores definitions with references *)
Example C16_refs_nonvacuous :
  exists c outs, reach c16_env default_conf c outs /\
                 (exists j s, In j outs /\ sref j s) /\ (exists n b s, assoc n (collected c) = Some b /\ sref b s).
Proof.
  destruct (schema c16_env default_conf Contextual 50 [] None empty_ctx c16_p1) as [[j1 c1]|e] eqn:E1; [|vm_compute in E1; discriminate E1].
  destruct (schema c16_env default_conf Contextual 50 [] None c1 c16_p2) as [[j2 c2]|e] eqn:E2;
    [|vm_compute in E1; injection E1 as <- <-; vm_compute in E2; discriminate E2].
  exists c2, (([] ++ [j1]) ++ [j2]). split; [|split].
  - eapply reach_step; [eapply reach_step; [apply reach_nil|exact E1]|exact E2].
  - vm_compute in E1. injection E1 as <- <-.
    eexists; eexists; split; [left; reflexivity|].
    eapply sr_props; [right; left; reflexivity|left; reflexivity|]. apply sr_here. left; reflexivity.
  - vm_compute in E1. injection E1 as <- <-. vm_compute in E2. injection E2 as <- <-.
    exists "T". eexists. eexists. split; [vm_compute; reflexivity|].
    eapply sr_props; [right; left; reflexivity|right; left; reflexivity|]. apply sr_here. left; reflexivity.
Qed.

Print Assumptions C16_schema_independent_of_context.
Print Assumptions C16_print_preserves_context_invariant.
Print Assumptions C16_collected_ref_is_noop.
Print Assumptions C16_every_ref_resolves_in_the_final_export.
