(* Props/C16.v — property C16: schema-printing contexts collect definitions independently of call order.
   Statements only. *)
From Beff Require Import Model.Schema Proofs.C16.

(* ---- the returned schema and every stored definition body are functions of the validator alone: whatever the
        state of the context (what is already collected or in progress) and whatever the remaining fuel, two
        successful contextual prints of the same tree return the same JSON ---- *)
Theorem C16_schema_independent_of_context :
  forall env cf f1 f2 seen1 seen2 desc c1 c2 r j1 c1' j2 c2',
    schema env cf Contextual f1 seen1 desc c1 r = Ok (j1, c1') ->
    schema env cf Contextual f2 seen2 desc c2 r = Ok (j2, c2') ->
    j1 = j2.
Proof. intros. eapply schema_context_independent; eauto. apply hash_is_stable. Qed.

(* ---- a successful print never leaves a definition unfinished, only adds definitions, and every definition it
        adds is the body printed for that named type (hence, by the theorem above, the one a fresh context prints) ---- *)
Theorem C16_print_preserves_context_invariant :
  forall env cf f seen desc c r j c',
    schema env cf Contextual f seen desc c r = Ok (j, c') ->
    in_progress c' = in_progress c /\
    (forall n b, assoc n (collected c) = Some b -> assoc n (collected c') = Some b) /\
    (forall n b, assoc n (collected c') = Some b ->
                 assoc n (collected c) = Some b \/ defined_by env cf n b).
Proof. exact schema_preserves_invariant. Qed.

(* printing a named type that is already collected is a no-op on the context *)
Theorem C16_collected_ref_is_noop :
  forall env cf f seen c n t,
    assoc n env = Some t -> has_definition c n = true ->
    schema env cf Contextual (S f) seen None c (RRef n) = Ok (JObj [("$ref", JStr (get_ref cf n))], c).
Proof. exact collected_ref_noop. Qed.

(* non-vacuity / order independence on a concrete family sharing a recursive type (a test, by computation) *)
Definition c16_env : renv :=
  [("T", RObject [("kids", RArray (RRef "T")); ("u", RRef "U")] []);
   ("U", RAnyOf [RObject [("t", ROptional (RRef "T"))] []; RNullish "null"])].
Definition c16_p1 : rt := RObject [("a", RRef "T")] [].
Definition c16_p2 : rt := RArray (RRef "U").
Definition run_hist (calls : list rt) : option json :=
  match fold_left (fun acc r => match acc with
                                | Some c => match schema c16_env default_conf Contextual 50 [] None c r with
                                            | Ok p => Some (snd p) | Throw _ => None end
                                | None => None end) calls (Some empty_ctx) with
  | Some c => Some (JObj (sort_by (fun a b => str_leb (fst a) (fst b)) (collected c)))
  | None => None
  end.
Example C16_order_independent_example :
  run_hist [c16_p1; c16_p2] = run_hist [c16_p2; c16_p1; c16_p2; c16_p1] /\ run_hist [c16_p1; c16_p2] <> None.
Proof. split; [vm_compute; reflexivity|vm_compute; discriminate]. Qed.

Print Assumptions C16_schema_independent_of_context.
Print Assumptions C16_print_preserves_context_invariant.
Print Assumptions C16_collected_ref_is_noop.
