(* Props/C09.v — property C09: splitting declarations across modules does not change the result; types that merely
   share a name in different files are kept apart.  Statements only. *)
From Beff Require Import Model.Names Proofs.C09.

(* full statement of the "kept apart" clause: same-named types of different files get different identifiers *)
Definition C09_same_named_types_kept_apart : Prop :=
  forall a b all, In a all -> In b all -> aname a = aname b -> afile a <> afile b ->
                  ts_identifier a all <> ts_identifier b all.

(* refuted by the unchanged code: the distinguishing path is sanitised (every non-alphanumeric character becomes _),
   so `a-b.ts` and `a_b.ts` collapse *)
Theorem C09_refuted_sanitised_paths_collide : ~ C09_same_named_types_kept_apart.
Proof.
  intros H.
  apply (H (mkAddr "a-b.ts" "X") (mkAddr "a_b.ts" "X") [mkAddr "a-b.ts" "X"; mkAddr "a_b.ts" "X"]);
    cbn; auto; try discriminate.
Qed.

(* what holds: whenever the sanitised distinguishing suffixes differ, so do the identifiers *)
Theorem C09_kept_apart_except_known :
  forall a b all,
    In a all -> In b all -> aname a = aname b -> afile a <> afile b ->
    to_valid_ts_identifier (min_file_path_that_differs (afile a)
        (map afile (filter (fun x => negb (address_eqb x a) && String.eqb (aname x) (aname a)) all)))
    <> to_valid_ts_identifier (min_file_path_that_differs (afile b)
        (map afile (filter (fun x => negb (address_eqb x b) && String.eqb (aname x) (aname b)) all))) ->
    ts_identifier a all <> ts_identifier b all.
Proof. intros. eapply ts_identifier_distinct; eauto. Qed.

Example C09_nonvacuous :
  ts_identifier (mkAddr "x/a.ts" "T") [mkAddr "x/a.ts" "T"; mkAddr "y/a.ts" "T"; mkAddr "z.ts" "U"] = "x_a_ts__T" /\
  ts_identifier (mkAddr "y/a.ts" "T") [mkAddr "x/a.ts" "T"; mkAddr "y/a.ts" "T"; mkAddr "z.ts" "U"] = "y_a_ts__T" /\
  ts_identifier (mkAddr "z.ts" "U") [mkAddr "x/a.ts" "T"; mkAddr "y/a.ts" "T"; mkAddr "z.ts" "U"] = "U".
Proof. repeat split; vm_compute; reflexivity. Qed.

Print Assumptions C09_refuted_sanitised_paths_collide.
Print Assumptions C09_kept_apart_except_known.
