(* Props/C14.v — property C14: in a long-lived session the answer of a rebuild is the answer of a fresh process for the
   current file contents, whatever history of updates (valid, unresolvable, not parsing) and rebuilds led there.
   Statements only.  The compiler proper is a parameter of the session model (Model/Session.v): parse = parse_and_bind,
   extract = beff_core::extract as a function of the file manager's answers (hypothesis extract_ext, trusted base).
   parse also depends on the names of the files that exist (import specifiers are resolved against them): the theorem is
   for histories that update existing files, as the watcher's do; a module created during the session is refuted below
   and is a listed finding. *)
From Beff Require Import Model.Session Proofs.C14.

Theorem C14_every_rebuild_answers_like_a_fresh_process :
  forall (M Out : Type) (parse : list string -> string -> string -> option M) (extract : (string -> option M) -> Out * list string),
    (forall g h, (forall f, g f = h f) -> fst (extract g) = fst (extract h)) ->
    forall (dk : list (string * string)) (ops : list sop),
      updates_existing ops (names dk) ->
      Forall (fun od => fst od = fresh_build M Out parse extract (snd od))
             (run M Out parse extract (update M parse) ops (mkS dk [])).
Proof.
  intros M Out parse extract Hext dk ops Hu. apply run_is_fresh; [exact Hext| |exact Hu].
  intros f c ns H. discriminate H.
Qed.

(* the session keeps its invariant: every cached module was parsed from the text the file has now, among the files that
   exist now *)
Theorem C14_cache_stays_coherent :
  forall (M Out : Type) (parse : list string -> string -> string -> option M) (extract : (string -> option M) -> Out * list string) st,
    coherent st ->
    (forall f c, In f (names (disk st)) -> coherent (update M parse f c st)) /\ coherent (snd (rebuild M Out parse extract st)).
Proof.
  intros M Out parse extract st Hc. split; [intros f c Hin; apply update_coherent; assumption|apply rebuild_coherent; exact Hc].
Qed.

(* the pinned tree kept the old module when the new text did not parse: refuted (repaired by a fix: commit) *)
Definition ex_parse (_ : list string) (_ c : string) : option string := if String.eqb c "broken" then None else Some c.
Definition ex_extract (g : string -> option string) : option string * list string := (g "a.ts", ["a.ts"]).
Theorem C14_refuted_when_a_failed_parse_keeps_the_old_module :
  exists ops, updates_existing ops ["a.ts"] /\
              ~ Forall (fun od => fst od = fresh_build string (option string) ex_parse ex_extract (snd od))
                       (run string (option string) ex_parse ex_extract (update_keeping_stale string ex_parse) ops (mkS [("a.ts", "v1")] [])).
Proof.
  exists [Rebuild; Update "a.ts" "broken"; Rebuild]. split; [cbn; tauto|]. intros H.
  inversion H as [|x l _ H2]; subst. inversion H2 as [|y l2 Hy _]; subst. vm_compute in Hy. discriminate Hy.
Qed.

(* outside the hypothesis: a module created during the session (the importer's resolutions stay those of the moment it was
   parsed) — the unchanged code answers differently from a fresh process; listed finding import_resolution_frozen_in_cached_importer *)
Definition imp_parse (ns : list string) (f c : string) : option string :=
  if String.eqb f "entry.ts" then Some (if mem_str "b.ts" ns then "entry sees b" else "entry: b unresolved") else Some c.
Definition imp_extract (g : string -> option string) : option string * list string := (g "entry.ts", ["entry.ts"]).
Theorem C14_refuted_for_created_modules :
  exists ops, ~ Forall (fun od => fst od = fresh_build string (option string) imp_parse imp_extract (snd od))
                       (run string (option string) imp_parse imp_extract (update string imp_parse) ops (mkS [("entry.ts", "import b")] [])).
Proof.
  exists [Rebuild; Update "b.ts" "export type B = 1"; Rebuild]. intros H.
  inversion H as [|x l _ H2]; subst. inversion H2 as [|y l2 Hy _]; subst. vm_compute in Hy. discriminate Hy.
Qed.

(* non-vacuity: the same history on the repaired update answers like a fresh process, and the answers differ over time *)
Example C14_nonvacuous :
  map fst (run string (option string) ex_parse ex_extract (update string ex_parse)
               [Rebuild; Update "a.ts" "broken"; Rebuild; Update "a.ts" "v2"; Rebuild] (mkS [("a.ts", "v1")] []))
  = [Some "v1"; None; Some "v2"].
Proof. vm_compute. reflexivity. Qed.

Print Assumptions C14_every_rebuild_answers_like_a_fresh_process.
Print Assumptions C14_cache_stays_coherent.
Print Assumptions C14_refuted_when_a_failed_parse_keeps_the_old_module.
Print Assumptions C14_refuted_for_created_modules.
