(* Props/C14.v — property C14: in a long-lived session the answer of a rebuild is the answer of a fresh process for the
   current file contents, whatever history of updates (valid, unresolvable, not parsing) and rebuilds led there.
   Statements only.  The compiler proper is a parameter of the session model (Model/Session.v): parse = parse_and_bind,
   extract = beff_core::extract as a function of the file manager's answers (hypothesis extract_ext, trusted base).
   Scope: histories over a fixed set of files (parse is a function of file name and text); a module created during the
   session is outside the model and is a listed finding (see Model/Session.v). *)
From Beff Require Import Model.Session Proofs.C14.

Theorem C14_every_rebuild_answers_like_a_fresh_process :
  forall (M Out : Type) (parse : string -> string -> option M) (extract : (string -> option M) -> Out * list string),
    (forall g h, (forall f, g f = h f) -> fst (extract g) = fst (extract h)) ->
    forall (dk : list (string * string)) (ops : list sop),
      Forall (fun od => fst od = fresh_build M Out parse extract (snd od))
             (run M Out parse extract (update M parse) ops (mkS dk [])).
Proof.
  intros M Out parse extract Hext dk ops. apply run_is_fresh; [exact Hext|].
  intros f c H. discriminate H.
Qed.

(* the session keeps its invariant: every cached module was parsed from the text the file has now *)
Theorem C14_cache_stays_coherent :
  forall (M Out : Type) (parse : string -> string -> option M) (extract : (string -> option M) -> Out * list string) st,
    coherent st ->
    (forall f c, coherent (update M parse f c st)) /\ coherent (snd (rebuild M Out parse extract st)).
Proof.
  intros M Out parse extract st Hc. split; [intros f c; apply update_coherent; exact Hc|apply rebuild_coherent; exact Hc].
Qed.

(* the pinned tree kept the old module when the new text did not parse: refuted (repaired by a fix: commit) *)
Definition ex_parse (_ c : string) : option string := if String.eqb c "broken" then None else Some c.
Definition ex_extract (g : string -> option string) : option string * list string := (g "a.ts", ["a.ts"]).
Theorem C14_refuted_when_a_failed_parse_keeps_the_old_module :
  exists ops, ~ Forall (fun od => fst od = fresh_build string (option string) ex_parse ex_extract (snd od))
                       (run string (option string) ex_parse ex_extract (update_keeping_stale string ex_parse) ops (mkS [("a.ts", "v1")] [])).
Proof.
  exists [Rebuild; Update "a.ts" "broken"; Rebuild]. intros H.
  inversion H as [|x l _ H2]; subst. inversion H2 as [|y l2 Hy _]; subst. vm_compute in Hy. discriminate Hy.
Qed.

(* non-vacuity: the same history on the repaired update answers like a fresh process, and the answers differ over time *)
Example C14_nonvacuous :
  map fst (run string (option string) ex_parse ex_extract (update string ex_parse)
               [Rebuild; Update "a.ts" "broken"; Rebuild; Update "a.ts" "v2"; Rebuild] (mkS [("a.ts", "v1")] []))
  = [Some "v1"; None; Some "v2"].
Proof. vm_compute. reflexivity. Qed.

Print Assumptions C14_every_rebuild_answers_like_a_fresh_process.
Print Assumptions C14_cache_stays_coherent.
Print Assumptions C14_refuted_when_a_failed_parse_keeps_the_old_module.
