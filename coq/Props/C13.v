(* Props/C13.v — property C13: hash256 is a structural fingerprint, computed as real SHA-256.
   Statements only; proofs in Proofs/Sha256.v, Proofs/C13.v. *)
From Beff Require Import Model.Hash256Enc Proofs.Sha256 Proofs.C13.
From Coq Require Import Sorting.Permutation.

(* ---- the digest routine: for every sequence of writes (every chunking, every block boundary, both padding
        branches) the streaming writer of hash.ts returns FIPS 180-4 SHA-256 of the concatenation ---- *)
Theorem C13_writer_is_sha256 :
  forall writes : list (list byte),
    digest_words K_source (fold_left (update_bytes K_source) writes (writer_init H0_source))
    = sha256_words K_fips H0_fips (List.concat writes).
Proof. intros. rewrite writer_computes_sha256, K_source_is_fips, H0_source_is_fips. reflexivity. Qed.

(* the round constants and initial words regenerated from hash.ts are those of FIPS 180-4 *)
Theorem C13_constants_are_fips : K_source = K_fips /\ H0_source = H0_fips.
Proof. split; reflexivity. Qed.

(* the specification itself on the NIST example messages (a test of the spec, by computation) *)
Example C13_nist_vectors :
  sha256_hex (bytes_of_string "abc") = "ba7816bf8f01cfea414140de5dae2223b00361a396177a9cb410ff61f20015ad" /\
  sha256_hex [] = "e3b0c44298fc1c149afbf4c8996fb92427ae41e4649b934ca495991b7852b855" /\
  sha256_hex (bytes_of_string "abcdbcdecdefdefgefghfghighijhijkijkljklmklmnlmnomnopnopq")
  = "248d6a61d20638b8e5c026930c3e6039a33ce45964ff2167f6ecedd419db06c1".
Proof. repeat split; vm_compute; reflexivity. Qed.

(* ---- hash256() of every validator tree is SHA-256 of the canonical encoding ---- *)
Theorem C13_hash256_is_sha256_of_encoding :
  forall env f r h,
    hash256_hex env f r = Ok h ->
    exists ws, hash256_writes env f r = Ok ws /\ h = hex_words (sha256_words K_fips H0_fips (List.concat ws)).
Proof. exact hash256_is_sha256_of_encoding. Qed.

(* the type bytes that frame tags / strings / numbers / booleans / null are pairwise distinct *)
Theorem C13_frame_bytes_distinct :
  NoDup [byte_tag_source; byte_string_source; byte_number_source; byte_true_source; byte_false_source; byte_null_source].
Proof. repeat constructor; cbn; intuition discriminate. Qed.

(* ---- independence: property order, mapping order, format order, comments/descriptions ---- *)
Theorem C13_property_order :
  forall env f st props props' indexed,
    Permutation props props' -> NoDup (keys props) ->
    enc env f st (RObject props indexed) = enc env f st (RObject props' indexed).
Proof. exact enc_object_property_order. Qed.

Theorem C13_mapping_order :
  forall env f st ss disc mapping mapping' smap,
    Permutation mapping mapping' -> NoDup (keys mapping) ->
    enc env f st (RDisc ss disc mapping smap) = enc env f st (RDisc ss disc mapping' smap).
Proof. exact enc_disc_mapping_order. Qed.

Theorem C13_format_order :
  forall env f st fs fs', Permutation fs fs' -> enc env f st (RStringFmt fs) = enc env f st (RStringFmt fs').
Proof. exact enc_format_order. Qed.

Theorem C13_metadata_invisible :
  forall env f st d t, enc env (S f) st (RMeta d t) = enc env f st t.
Proof. exact enc_ignores_metadata. Qed.

Theorem C13_hash32_property_order :
  forall env f seen props props' indexed,
    Permutation props props' -> NoDup (keys props) ->
    hash32 env f seen (RObject props indexed) = hash32 env f seen (RObject props' indexed).
Proof. exact hash32_object_property_order. Qed.

(* ---- alias boundaries: refuted.  nextCycleId is incremented at every reference, so an alias U = L of a
        recursive type L shifts the cycle ids and changes the digest ---- *)
Definition C13_alias_boundaries_invisible : Prop :=
  forall env f alias target h1 h2,
    assoc alias env = Some (RRef target) ->
    hash256_hex env f (RRef alias) = Ok h1 -> hash256_hex env f (RRef target) = Ok h2 -> h1 = h2.
Definition c13_env : renv :=
  [("L", RObject [("v", RTypeof TyNumber); ("next", RAnyOf [RRef "L"; RNullish "null"])] []); ("U", RRef "L")].
Theorem C13_refuted_alias : ~ C13_alias_boundaries_invisible.
Proof.
  intros H.
  assert (Hh : exists h1 h2, hash256_hex c13_env 20 (RRef "U") = Ok h1 /\ hash256_hex c13_env 20 (RRef "L") = Ok h2
                             /\ String.eqb h1 h2 = false).
  { eexists. eexists. split; [vm_compute; reflexivity|]. split; vm_compute; reflexivity. }
  destruct Hh as [h1 [h2 [H1 [H2 Hne]]]].
  rewrite (H c13_env 20 "U" "L" h1 h2 eq_refl H1 H2) in Hne. rewrite String.eqb_refl in Hne. discriminate.
Qed.

Print Assumptions C13_writer_is_sha256.
Print Assumptions C13_hash256_is_sha256_of_encoding.
Print Assumptions C13_property_order.
Print Assumptions C13_mapping_order.
Print Assumptions C13_hash32_property_order.
Print Assumptions C13_refuted_alias.
