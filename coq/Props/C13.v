(* Props/C13.v — property C13: hash256 is a structural fingerprint, computed as real SHA-256.
   Statements only; proofs in Proofs/Sha256.v, Proofs/C13.v, Proofs/C13Bytes.v, Proofs/C13Inj.v. *)
From Beff Require Import Model.Hash256Enc Model.Validate Proofs.Sha256 Proofs.C13 Proofs.C13Bytes Proofs.C13Inj Proofs.C15Term Proofs.C13Term.
From Coq Require Import Sorting.Permutation.

(* ---- the digest routine: for every sequence of writes (every chunking, every block boundary, both padding
        branches) the streaming writer of hash.ts returns FIPS 180-4 SHA-256 of the concatenation ---- *)
Theorem C13_writer_is_sha256 :
  forall writes : list (list byte),
    digest_words K_source (fold_left (update_bytes K_source) writes (writer_init H0_source))
    = sha256_words K_fips H0_fips (List.concat writes).
Proof. intros. rewrite writer_computes_sha256, K_source_is_fips, H0_source_is_fips. reflexivity. Qed.

(* the round constants and initial words regenerated from hash.ts are those of FIPS 180-4 *)
Theorem C13_constants_are_fips : K_source = K_fips /\ H0_source = H0_fips.
Proof. split; reflexivity. Qed.

(* the specification itself on the NIST example messages (a test of the spec, by computation) *)
Example C13_nist_vectors :
  sha256_hex (bytes_of_string "abc") = "ba7816bf8f01cfea414140de5dae2223b00361a396177a9cb410ff61f20015ad" /\
  sha256_hex [] = "e3b0c44298fc1c149afbf4c8996fb92427ae41e4649b934ca495991b7852b855" /\
  sha256_hex (bytes_of_string "abcdbcdecdefdefgefghfghighijhijkijkljklmklmnlmnomnopnopq")
  = "248d6a61d20638b8e5c026930c3e6039a33ce45964ff2167f6ecedd419db06c1".
Proof. repeat split; vm_compute; reflexivity. Qed.

(* ---- hash256() of every validator tree is SHA-256 of the canonical encoding ---- *)
Theorem C13_hash256_is_sha256_of_encoding :
  forall env f r h,
    hash256_hex env f r = Ok h ->
    exists ws, hash256_writes env f r = Ok ws /\ h = hex_words (sha256_words K_fips H0_fips (List.concat ws)).
Proof. exact hash256_is_sha256_of_encoding. Qed.

(* the type bytes that frame tags / strings / numbers / booleans / null are pairwise distinct *)
Theorem C13_frame_bytes_distinct :
  NoDup [byte_tag_source; byte_string_source; byte_number_source; byte_true_source; byte_false_source; byte_null_source].
Proof. repeat constructor; cbn; intuition discriminate. Qed.

(* ---- independence: property order, mapping order, format order, comments/descriptions ---- *)
Theorem C13_property_order :
  forall env f st props props' indexed,
    Permutation props props' -> NoDup (keys props) ->
    enc env f st (RObject props indexed) = enc env f st (RObject props' indexed).
Proof. exact enc_object_property_order. Qed.

Theorem C13_mapping_order :
  forall env f st ss disc mapping mapping' smap,
    Permutation mapping mapping' -> NoDup (keys mapping) ->
    enc env f st (RDisc ss disc mapping smap) = enc env f st (RDisc ss disc mapping' smap).
Proof. exact enc_disc_mapping_order. Qed.

Theorem C13_format_order :
  forall env f st fs fs', Permutation fs fs' -> enc env f st (RStringFmt fs) = enc env f st (RStringFmt fs').
Proof. exact enc_format_order. Qed.

Theorem C13_metadata_invisible :
  forall env f st d t, enc env (S f) st (RMeta d t) = enc env f st t.
Proof. exact enc_ignores_metadata. Qed.

Theorem C13_hash32_property_order :
  forall env f seen props props' indexed,
    Permutation props props' -> NoDup (keys props) ->
    hash32 env f seen (RObject props indexed) = hash32 env f seen (RObject props' indexed).
Proof. exact hash32_object_property_order. Qed.

(* ---- alias boundaries: refuted.  nextCycleId is incremented at every reference, so an alias U = L of a
        recursive type L shifts the cycle ids and changes the digest ---- *)
Definition C13_alias_boundaries_invisible : Prop :=
  forall env f alias target h1 h2,
    assoc alias env = Some (RRef target) ->
    hash256_hex env f (RRef alias) = Ok h1 -> hash256_hex env f (RRef target) = Ok h2 -> h1 = h2.
Definition c13_env : renv :=
  [("L", RObject [("v", RTypeof TyNumber); ("next", RAnyOf [RRef "L"; RNullish "null"])] []); ("U", RRef "L")].
Theorem C13_refuted_alias : ~ C13_alias_boundaries_invisible.
Proof.
  intros H.
  assert (Hh : exists h1 h2, hash256_hex c13_env 20 (RRef "U") = Ok h1 /\ hash256_hex c13_env 20 (RRef "L") = Ok h2
                             /\ String.eqb h1 h2 = false).
  { eexists. eexists. split; [vm_compute; reflexivity|]. split; vm_compute; reflexivity. }
  destruct Hh as [h1 [h2 [H1 [H2 Hne]]]].
  rewrite (H c13_env 20 "U" "L" h1 h2 eq_refl H1 H2) in Hne. rewrite String.eqb_refl in Hne. discriminate.
Qed.

(* ---- "two validators that disagree on any value have different digests", up to a SHA-256 collision ----
   The fragment `hfr env rank n` (Proofs/C13Inj.v): every tree whose named references descend along a rank function (`env_okb`:
   no recursion, hence no cycle ids; the root's references have rank below n) and which contains no template-literal pattern
   (RRegex: the pattern is not written, only its description); strings shorter than 2^32 bytes (the width of the length prefix),
   property / mapping keys without repetition, non-integral number literals written as such.
   For all such trees and environments, all fuels at which the encoder and the two validations answer, every registered-format
   table, both modes and every value: if the byte strings fed to SHA-256 are equal, the validators give the same answer. *)
Theorem C13_equal_streams_accept_the_same_values :
  forall (F : formats) (env : renv) (rank : string -> nat) (f1 f2 n1 n2 : nat) (r1 r2 : rt) (ws1 ws2 : list (list byte)),
    env_okb env rank = true -> hfr env rank n1 r1 = true -> hfr env rank n2 r2 = true ->
    hash256_writes env f1 r1 = Ok ws1 -> hash256_writes env f2 r2 = Ok ws2 ->
    List.concat ws1 = List.concat ws2 ->
    forall fv1 fv2 strict v b1 b2,
      validate F env fv1 strict r1 v = Ok b1 -> validate F env fv2 strict r2 v = Ok b2 -> b1 = b2.
Proof.
  intros F env rank f1 f2 n1 n2 r1 r2 ws1 ws2 He H1 H2 E1 E2 H fv1 fv2 strict v.
  exact (writes_determine_behaviour F env rank (env_okb_sound env rank He) f1 f2 n1 n2 r1 r2 ws1 ws2 H1 H2 E1 E2 H fv1 fv2 strict v).
Qed.

(* the contrapositive, down to the digests: validators that disagree on one value are the SHA-256 images of two different
   byte strings (so equal digests would be a collision of SHA-256 itself) *)
Theorem C13_disagreeing_validators_are_hashed_from_different_bytes :
  forall (F : formats) (env : renv) (rank : string -> nat) (f1 f2 n1 n2 : nat) (r1 r2 : rt) (h1 h2 : string),
    env_okb env rank = true -> hfr env rank n1 r1 = true -> hfr env rank n2 r2 = true ->
    hash256_hex env f1 r1 = Ok h1 -> hash256_hex env f2 r2 = Ok h2 ->
    forall fv1 fv2 strict v b1 b2,
      validate F env fv1 strict r1 v = Ok b1 -> validate F env fv2 strict r2 v = Ok b2 -> b1 <> b2 ->
      exists m1 m2 : list byte,
        m1 <> m2 /\ h1 = hex_words (sha256_words K_fips H0_fips m1) /\ h2 = hex_words (sha256_words K_fips H0_fips m2).
Proof.
  intros F env rank f1 f2 n1 n2 r1 r2 h1 h2 He Hf1 Hf2 E1 E2 fv1 fv2 strict v b1 b2 V1 V2 Hne.
  destruct (hash256_is_sha256_of_encoding _ _ _ _ E1) as [ws1 [W1 ->]].
  destruct (hash256_is_sha256_of_encoding _ _ _ _ E2) as [ws2 [W2 ->]].
  exists (List.concat ws1), (List.concat ws2). split; [|split; reflexivity].
  intros Heq. apply Hne.
  exact (writes_determine_behaviour F env rank (env_okb_sound env rank He) f1 f2 n1 n2 r1 r2 ws1 ws2 Hf1 Hf2 W1 W2 Heq
           fv1 fv2 strict v b1 b2 V1 V2).
Qed.

(* the framing is a prefix code: what was written in front of anything can be read back *)
Theorem C13_framing_is_a_prefix_code :
  (forall a b x y, small a = true -> small b = true ->
     List.concat (w_tag a) ++ x = List.concat (w_tag b) ++ y -> a = b /\ x = y) /\
  (forall a b x y, small a = true -> small b = true ->
     List.concat (w_string a) ++ x = List.concat (w_string b) ++ y -> a = b /\ x = y) /\
  (forall n m x y, num_ok n = true -> num_ok m = true ->
     List.concat (w_number n) ++ x = List.concat (w_number m) ++ y -> n = m /\ x = y) /\
  (forall a b x y, List.concat (w_bool a) ++ x = List.concat (w_bool b) ++ y -> a = b /\ x = y).
Proof. split; [exact tag_inj|split; [exact string_inj|split; [exact number_inj|exact bool_inj]]]. Qed.

(* non-vacuity: a tree using every construct of the fragment (named types included) is in it and is encoded; making one
   property required changes the byte string; and the boundary of the fragment is real on the model: a non-integral literal
   spelt like an integer (which no compiled module contains) is written like the integer *)
Definition c13_frag_env : renv :=
  [("Leaf", RObject [("kind", RConst (CStr "p")); ("w", RTypedArray "Uint8Array")] []);
   ("Pair", RTuple [RRef "Leaf"; RMeta "second" (RRef "Leaf")] None)].
Definition c13_frag_rank (s : string) : nat := if String.eqb s "Pair" then 1 else 0.
Definition c13_frag_tree (opt : bool) : rt :=
  RMeta "doc"
    (RObject [("b", if opt then ROptional (RAnyOfConsts [CNum (NInt 1); CStr "x"; CNull]) else RAnyOfConsts [CNum (NInt 1); CStr "x"; CNull]);
              ("a", RTuple [RTypeof TyNumber; RConst (CNum (NDec "1.5"))] (Some (RTypeof TyBoolean)));
              ("u", RDisc [] "kind" [("p", RRef "Leaf"); ("q", RObject [("kind", RConst (CStr "q"))] [])] []);
              ("n", RRef "Pair");
              ("m", RAnyOf [RMap (RTypeof TyString) RDate; RSet RBigInt; RArray (RStringFmt ["f"; "e"]); RAllOf [RAny; RNever]; RNullish "void"])]
             [(RTypeof TyString, RTypedArray "Uint8Array")]).
Example C13_injectivity_nonvacuous :
  env_okb c13_frag_env c13_frag_rank = true /\
  hfr c13_frag_env c13_frag_rank 2 (c13_frag_tree true) = true /\ hfr c13_frag_env c13_frag_rank 2 (c13_frag_tree false) = true /\
  (exists ws1 ws2, hash256_writes c13_frag_env 20 (c13_frag_tree true) = Ok ws1 /\
                   hash256_writes c13_frag_env 20 (c13_frag_tree false) = Ok ws2 /\ List.concat ws1 <> List.concat ws2) /\
  (exists ws, hash256_writes [] 5 (RConst (CNum (NDec "5"))) = Ok ws /\ hash256_writes [] 5 (RConst (CNum (NInt 5))) = Ok ws) /\
  hfr [] (fun _ => 0) 1 (RConst (CNum (NDec "5"))) = false.
Proof.
  split; [vm_compute; reflexivity|]. split; [vm_compute; reflexivity|]. split; [vm_compute; reflexivity|]. split.
  - eexists. eexists. split; [vm_compute; reflexivity|]. split; [vm_compute; reflexivity|].
    vm_compute. discriminate.
  - split; [|vm_compute; reflexivity]. eexists. split; vm_compute; reflexivity.
Qed.

(* ---- hash256() terminates on recursive types ----
   A named type is marked active while it is hashed and a reference to an active name is written as a cycle id; the table of
   active names comes back unchanged from every call (every tree, every state).  Hence, for every environment and tree of height
   at most H (the height through the discriminator mapping as well), no fuel from (|env| + 1) * (H + 1) on is exhausted. *)
Theorem C13_active_names_restored :
  forall env f st r p, enc env f st r = Ok p -> fst (snd p) = fst st.
Proof. exact enc_restores. Qed.

Theorem C13_hash256_terminates_on_recursive_types :
  forall env H fuel r,
    forallb (fun e => Nat.leb (hte (snd e)) H) env = true -> hte r <= H ->
    (List.length env + 1) * (H + 1) <= fuel ->
    forall e, hash256_hex env fuel r = Throw e -> e <> EOutOfFuel.
Proof. exact hash256_terminates. Qed.

(* non-vacuity: the mutually recursive environment of the alias refutation above, at exactly the bound *)
Example C13_termination_nonvacuous :
  forallb (fun e => Nat.leb (hte (snd e)) 6) c13_env = true /\
  exists h, hash256_hex c13_env ((List.length c13_env + 1) * (6 + 1)) (RRef "U") = Ok h.
Proof. split; [vm_compute; reflexivity|eexists; vm_compute; reflexivity]. Qed.

Print Assumptions C13_writer_is_sha256.
Print Assumptions C13_hash256_is_sha256_of_encoding.
Print Assumptions C13_property_order.
Print Assumptions C13_mapping_order.
Print Assumptions C13_hash32_property_order.
Print Assumptions C13_refuted_alias.
Print Assumptions C13_equal_streams_accept_the_same_values.
Print Assumptions C13_disagreeing_validators_are_hashed_from_different_bytes.
Print Assumptions C13_framing_is_a_prefix_code.
Print Assumptions C13_injectivity_nonvacuous.
Print Assumptions C13_active_names_restored.
Print Assumptions C13_hash256_terminates_on_recursive_types.
Print Assumptions C13_termination_nonvacuous.
