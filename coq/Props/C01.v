(* Props/C01.v — property C01: a generated validator accepts exactly the members of the declared type.  Statements only.
   The chain is  TypeScript type --frontend--> IR --print_runtype--> validator tree --validate--> answer.
   Theorems here are about the last two steps (Model/Printer.v, Model/Validate.v) against the meaning of the IR
   (rmember, Model/Ir.v); the frontend is judged by a reference membership on generated programs (see DESIGN.md). *)
From Beff Require Import Model.Printer Proofs.C01 Proofs.C01Print Proofs.C01Union.

(* the two compile-time dispatch optimisations accept exactly what the plain union of their members accepts *)
Theorem C01_literal_set_dispatch_is_union :
  forall F env f strict cs v,
    forallb cst_not_nan cs = true ->
    validate F env (S (S f)) strict (RAnyOfConsts cs) v = validate F env (S (S f)) strict (RAnyOf (map RConst cs)) v.
Proof. exact consts_dispatch_is_union. Qed.

Theorem C01_discriminator_dispatch_is_union :
  forall F env f strict ss disc mapping smap v a b,
    (forall m, In m ss -> exists props p, member_shape disc m props p /\
                                         forall k, In k (disc_keys p) -> assoc k mapping = Some m) ->
    (forall k m, assoc k mapping = Some m -> In m ss /\ exists props p, member_shape disc m props p /\ In k (disc_keys p)) ->
    validate F env (S f) strict (RDisc ss disc mapping smap) v = Ok a ->
    validate F env (S f) strict (RAnyOf ss) v = Ok b ->
    a = b.
Proof. exact disc_dispatch_is_union. Qed.

(* every IR type outside template literals and the two dispatch forms, with two side conditions that keep the listed findings
   out: tuple prefix elements reject undefined (else short arrays are padded: short_tuple_padded_with_undefined) and the members
   of an intersection accept objects only (else intersection_with_non_object_member_rejects_everything).  Both conditions are read
   off the printed trees; for named members they are looked up in the printed environment (rej_of / objs_of).
   Then the printed validator answers what the IR type means, for every value, every named environment and every fuel at
   which both evaluations end. *)
Theorem C01_printed_validator_means_the_IR :
  forall F ienv prefer renv',
    env_printed (rej_of renv') (objs_of renv') ienv prefer renv' ->
    forall k1 t v a pf r k2 b,
      rmember F ienv k1 t v = Ok a ->
      print ienv prefer pf t = Ok r -> plain_rt (rej_of renv') (objs_of renv') r = true ->
      validate F renv' k2 false r v = Ok b ->
      a = b.
Proof. exact print_plain_correct_env. Qed.

(* a union every flattened member of which is a literal (through references and nested unions) is printed as one literal-set
   dispatch; that validator answers what the union means, for every value (the listed literals being no NaN) *)
Theorem C01_literal_union_validator_means_the_union :
  forall F env prefer renv' f vs cs k1 k2 v a b,
    print env prefer (S f) (IAnyOf vs) = Ok (RAnyOfConsts cs) ->
    forallb cst_not_nan cs = true ->
    rmember F env k1 (IAnyOf vs) v = Ok a ->
    validate F renv' k2 false (RAnyOfConsts cs) v = Ok b ->
    a = b.
Proof. exact consts_dispatch_means_the_union. Qed.
Definition lit_env : ienv := [("L", IAnyOf [ITpl [TplConst "x"]; IConst (ICNum (NInt 2))])].
Definition lit_union : ir := IAnyOf [IRef "L"; IConst (ICBool true); ITpl [TplConst "x"]].
Example C01_literal_union_nonvacuous :
  exists cs, print lit_env [] 10 lit_union = Ok (RAnyOfConsts cs) /\ forallb cst_not_nan cs = true /\ List.length cs = 3.
Proof. eexists. repeat split; vm_compute; reflexivity. Qed.

(* outside that fragment, refuted on the faithful model (listed finding short_tuple_padded_with_undefined): the validator of
   [string, number | undefined] accepts the one-element array ["a"], which is not a member of the tuple type *)
Definition short_tuple : ir := ITuple [IString; IAnyOf [INumber; IUndefined]] None.
Theorem C01_refuted_for_short_tuples :
  exists r, print [] [] 10 short_tuple = Ok r /\
            validate {| sfmt := fun _ => None; nfmt := fun _ => None |} [] 10 false r (VArr [VStr "a"]) = Ok true /\
            rmember {| sfmt := fun _ => None; nfmt := fun _ => None |} [] 10 short_tuple (VArr [VStr "a"]) = Ok false.
Proof. eexists. repeat split; vm_compute; reflexivity. Qed.

(* non-vacuity: a recursive object type with optional properties, arrays, Map, plain unions, a tuple with rest whose prefix is
   a named object, and an intersection of named objects *)
Definition ex_ienv : ienv :=
  [("T", IObject [("next", (false, IRef "T")); ("t", (true, IArray (IAnyOf [IString; INumber])));
                  ("u", (false, IAnyOf [IString; IArray IBoolean])); ("m", (false, IMap IString IDate))] None);
   ("P", IObject [("x", (true, INumber))] None);
   ("Q", IObject [("y", (true, IString))] None);
   ("W", IObject [("pair", (true, ITuple [IRef "P"; IString] (Some INumber))); ("both", (true, IAllOf [IRef "P"; IRef "Q"]))] None)].
Example C01_nonvacuous :
  exists r renv',
    print ex_ienv [] 20 (IRef "T") = Ok r /\ print_env ex_ienv [] 20 = Ok renv' /\
    plain_rt (rej_of renv') (objs_of renv') r = true /\
    forallb (fun kv => plain_rt (rej_of renv') (objs_of renv') (snd kv)) renv' = true /\
    validate {| sfmt := fun _ => None; nfmt := fun _ => None |} renv' 30 false r
             (VObj [("t", VArr [VStr "a"; VNum (NInt 1)]); ("u", VArr [VBool true]); ("next", VObj [("t", VArr [VStr "b"])])]) = Ok true /\
    validate {| sfmt := fun _ => None; nfmt := fun _ => None |} renv' 30 false r
             (VObj [("t", VArr [VStr "a"; VBool true])]) = Ok false /\
    validate {| sfmt := fun _ => None; nfmt := fun _ => None |} renv' 30 false (RRef "W")
             (VObj [("pair", VArr [VObj [("x", VNum (NInt 1))]; VStr "s"; VNum (NInt 2)]); ("both", VObj [("x", VNum (NInt 1)); ("y", VStr "z")])]) = Ok true /\
    validate {| sfmt := fun _ => None; nfmt := fun _ => None |} renv' 30 false (RRef "W")
             (VObj [("pair", VArr [VObj [("x", VNum (NInt 1))]]); ("both", VObj [("x", VNum (NInt 1)); ("y", VStr "z")])]) = Ok false.
Proof. eexists. eexists. repeat split; vm_compute; reflexivity. Qed.

Print Assumptions C01_literal_set_dispatch_is_union.
Print Assumptions C01_discriminator_dispatch_is_union.
Print Assumptions C01_printed_validator_means_the_IR.
Print Assumptions C01_literal_union_validator_means_the_union.
Print Assumptions C01_refuted_for_short_tuples.
