(* Props/C02.v — property C02: emitted JSON Schema and validator agree on JSON documents.  Statements only. *)
From Beff Require Import Model.JsonSchema Model.Cases Proofs.C02 Proofs.C02Sound Proofs.C02Complete.

(* ---- a type JSON Schema cannot express (Date, bigint, Map, Set, typed arrays at a position the flat printer
        visits) makes schema() throw instead of emitting a schema: for all trees, environments, states ---- *)
Theorem C02_flat_unsupported_throws :
  forall env cf f seen desc c r j c',
    schema env cf Flat f seen desc c r = Ok (j, c') -> inexpr r = false.
Proof. exact schema_ok_expressible. Qed.

(* ---- soundness, full statement: every document valid against the flat schema is accepted by the validator ---- *)
Definition C02_sound_flat : Prop :=
  forall env f r j c' d v,
    schema env default_conf Flat f [] None empty_ctx r = Ok (j, c') ->
    val_to_json f v = Some d -> js_valid (fun _ => None) f j d = true ->
    validate F0 env f false r v = Ok true.

(* ---- soundness, proved on a fragment (Proofs/C02Sound.v): primitives, any, null/undefined, literals and literal sets, arrays,
        unions, optional members, closed objects (distinct keys, none named like an Object.prototype member), records
        (one index signature, no declared property), named types that are not recursive, descriptions anywhere.
        For every such validator tree, every environment, every JSON document: a document valid against the flat
        schema is accepted by the validator -- in strict mode too, i.e. it carries no undeclared key.
        Outside: tuples (refuted below), intersections, discriminated dispatch, template patterns, custom formats. ---- *)
Theorem C02_flat_schema_sound_on_fragment :
  forall F env cf fs r j c' fj fz fv strict v d b,
    sfrag env fs [] r = true ->
    schema env cf Flat fs [] None empty_ctx r = Ok (j, c') ->
    val_to_json fz v = Some d -> js_valid (fun _ => None) fj j d = true ->
    validate F env fv strict r v = Ok b -> b = true.
Proof. exact flat_schema_sound_on_fragment. Qed.

(* the fragment is not empty: a recursive-free program with a named type, a record, a union with null, literals and an optional member *)
Definition c02_env : renv :=
  [("Tag", RAnyOfConsts [CStr "a"; CStr "b"]);
   ("Item", RObject [("tag", RRef "Tag"); ("n", ROptional (RTypeof TyNumber)); ("note", RAnyOf [RTypeof TyString; RNullish "null"])] [])].
Definition c02_rt2 : rt :=
  RMeta "a page" (RObject [("items", RArray (RRef "Item")); ("byName", RObject [] [(RTypeof TyString, RRef "Item")]); ("any", RAny)] []).
Example C02_fragment_nonvacuous :
  sfrag c02_env 20 [] c02_rt2 = true /\
  exists j c', schema c02_env default_conf Flat 20 [] None empty_ctx c02_rt2 = Ok (j, c') /\
    js_valid (fun _ => None) 20 j
      (JObj [("items", JArr [JObj [("tag", JStr "a"); ("note", JStr "x")]]); ("byName", JObj [("k", JObj [("tag", JStr "b"); ("n", JNum (NInt 1))])]); ("any", JNull)]) = true /\
    js_valid (fun _ => None) 20 j (JObj [("items", JArr [JObj [("tag", JStr "c")]]); ("byName", JObj []); ("any", JNull)]) = false.
Proof. split; [vm_compute; reflexivity|]. eexists. eexists. split; [vm_compute; reflexivity|]. split; vm_compute; reflexivity. Qed.

(* ---- the converse on a narrower fragment (Proofs/C02Complete.v, with Proofs/C02Mono.v: js_valid is monotone in its fuel on
        the schemas beff prints in flat mode): properties are types that never accept undefined/null (`strict_ty`) or
        optional such types; then every JSON document without null and with distinct keys (`json_ok`) that the validator
        accepts with undeclared keys disallowed is valid against the flat schema. ---- *)
Theorem C02_flat_schema_complete_on_fragment :
  forall F env cf fs r j c' v d fz fv,
    sfrag env fs [] r = true -> cfrag env fs [] r = true ->
    schema env cf Flat fs [] None empty_ctx r = Ok (j, c') ->
    val_to_json fz v = Some d -> json_ok d = true ->
    validate F env fv true r v = Ok true ->
    exists fj, js_valid (fun _ => None) fj j d = true.
Proof. intros F env cf fs r j c' v d fz fv Hs Hc Hj. exact (schema_flat_complete F env cf fs [] None empty_ctx r j c' Hs Hc Hj v d fz fv). Qed.

Definition c02_env3 : renv :=
  [("Tag", RAnyOfConsts [CStr "a"; CStr "b"]);
   ("Item", RObject [("tag", RRef "Tag"); ("n", ROptional (RTypeof TyNumber)); ("note", RAnyOf [RTypeof TyString; RTypeof TyNumber])] [])].
Definition c02_rt3 : rt :=
  RMeta "a page" (RObject [("items", RArray (RRef "Item")); ("byName", RObject [] [(RTypeof TyString, RRef "Item")])] []).
Example C02_complete_fragment_nonvacuous :
  sfrag c02_env3 20 [] c02_rt3 = true /\ cfrag c02_env3 20 [] c02_rt3 = true /\
  json_ok (JObj [("items", JArr [JObj [("tag", JStr "a"); ("note", JStr "x")]]); ("byName", JObj [("k", JObj [("tag", JStr "b"); ("n", JNum (NInt 1)); ("note", JNum (NInt 2))])])]) = true /\
  validate F0 c02_env3 20 true c02_rt3
    (VObj [("items", VArr [VObj [("tag", VStr "a"); ("note", VStr "x")]]); ("byName", VObj [("k", VObj [("tag", VStr "b"); ("n", VNum (NInt 1)); ("note", VNum (NInt 2))])])]) = Ok true.
Proof. repeat split; vm_compute; reflexivity. Qed.

(* refuted by the unchanged code: tuples are printed with prefixItems / items:false but without minItems *)
Theorem C02_refuted_tuple_without_minItems : ~ C02_sound_flat.
Proof.
  intros H.
  specialize (H [] 20 (RTuple [RTypeof TyNumber; RTypeof TyString] None)
                (JObj [("type", JStr "array"); ("prefixItems", JArr [JObj [("type", JStr "number")]; JObj [("type", JStr "string")]]);
                       ("items", JBool false)]) empty_ctx (JArr []) (VArr [])).
  vm_compute in H. specialize (H eq_refl eq_refl eq_refl). discriminate H.
Qed.

(* `never` is printed as {"anyOf": []}, which Draft 2020-12 does not allow (anyOf must be non-empty) *)
Theorem C02_refuted_never_is_malformed :
  exists j c', schema [] default_conf Flat 5 [] None empty_ctx RNever = Ok (j, c') /\ jget j "anyOf" = Some (JArr []).
Proof. eexists. eexists. split; vm_compute; reflexivity. Qed.

(* non-vacuity: an object type with an optional property and a nested array; the reading of JSON Schema used here and
   the validator agree on an accepted and on a rejected document *)
Definition c02_rt : rt :=
  RObject [("a", RTypeof TyString); ("b", ROptional (RArray (RTypeof TyNumber)))] [].
Example C02_nonvacuous :
  exists j c',
    schema [] default_conf Flat 20 [] None empty_ctx c02_rt = Ok (j, c') /\
    js_valid (fun _ => None) 20 j (JObj [("a", JStr "x"); ("b", JArr [JNum (NInt 1)])]) = true /\
    validate F0 [] 20 true c02_rt (VObj [("a", VStr "x"); ("b", VArr [VNum (NInt 1)])]) = Ok true /\
    js_valid (fun _ => None) 20 j (JObj [("a", JStr "x"); ("zz", JNull)]) = false /\
    validate F0 [] 20 true c02_rt (VObj [("a", VStr "x"); ("zz", VNull)]) = Ok false.
Proof. eexists. eexists. split; [vm_compute; reflexivity|]. repeat split; vm_compute; reflexivity. Qed.

Print Assumptions C02_flat_unsupported_throws.
Print Assumptions C02_flat_schema_sound_on_fragment.
Print Assumptions C02_flat_schema_complete_on_fragment.
Print Assumptions C02_refuted_tuple_without_minItems.
Print Assumptions C02_refuted_never_is_malformed.
