(* Props/C02.v — property C02: emitted JSON Schema and validator agree on JSON documents.  Statements only. *)
From Beff Require Import Model.JsonSchema Model.Cases Proofs.C02.

(* ---- a type JSON Schema cannot express (Date, bigint, Map, Set, typed arrays at a position the flat printer
        visits) makes schema() throw instead of emitting a schema: for all trees, environments, states ---- *)
Theorem C02_flat_unsupported_throws :
  forall env cf f seen desc c r j c',
    schema env cf Flat f seen desc c r = Ok (j, c') -> inexpr r = false.
Proof. exact schema_ok_expressible. Qed.

(* ---- soundness, full statement: every document valid against the flat schema is accepted by the validator ---- *)
Definition C02_sound_flat : Prop :=
  forall env f r j c' d v,
    schema env default_conf Flat f [] None empty_ctx r = Ok (j, c') ->
    val_to_json f v = Some d -> js_valid (fun _ => None) f j d = true ->
    validate F0 env f false r v = Ok true.

(* refuted by the unchanged code: tuples are printed with prefixItems / items:false but without minItems *)
Theorem C02_refuted_tuple_without_minItems : ~ C02_sound_flat.
Proof.
  intros H.
  specialize (H [] 20 (RTuple [RTypeof TyNumber; RTypeof TyString] None)
                (JObj [("type", JStr "array"); ("prefixItems", JArr [JObj [("type", JStr "number")]; JObj [("type", JStr "string")]]);
                       ("items", JBool false)]) empty_ctx (JArr []) (VArr [])).
  vm_compute in H. specialize (H eq_refl eq_refl eq_refl). discriminate H.
Qed.

(* `never` is printed as {"anyOf": []}, which Draft 2020-12 does not allow (anyOf must be non-empty) *)
Theorem C02_refuted_never_is_malformed :
  exists j c', schema [] default_conf Flat 5 [] None empty_ctx RNever = Ok (j, c') /\ jget j "anyOf" = Some (JArr []).
Proof. eexists. eexists. split; vm_compute; reflexivity. Qed.

(* non-vacuity: an object type with an optional property and a nested array; the reading of JSON Schema used here and
   the validator agree on an accepted and on a rejected document *)
Definition c02_rt : rt :=
  RObject [("a", RTypeof TyString); ("b", ROptional (RArray (RTypeof TyNumber)))] [].
Example C02_nonvacuous :
  exists j c',
    schema [] default_conf Flat 20 [] None empty_ctx c02_rt = Ok (j, c') /\
    js_valid (fun _ => None) 20 j (JObj [("a", JStr "x"); ("b", JArr [JNum (NInt 1)])]) = true /\
    validate F0 [] 20 true c02_rt (VObj [("a", VStr "x"); ("b", VArr [VNum (NInt 1)])]) = Ok true /\
    js_valid (fun _ => None) 20 j (JObj [("a", JStr "x"); ("zz", JNull)]) = false /\
    validate F0 [] 20 true c02_rt (VObj [("a", VStr "x"); ("zz", VNull)]) = Ok false.
Proof. eexists. eexists. split; [vm_compute; reflexivity|]. repeat split; vm_compute; reflexivity. Qed.

Print Assumptions C02_flat_unsupported_throws.
Print Assumptions C02_refuted_tuple_without_minItems.
Print Assumptions C02_refuted_never_is_malformed.
