(* Props/C12.v — property C12: decode errors are present, bounded and point into the input.
   Statements only; proofs in Proofs/C12.v, Proofs/C03.v. *)
From Beff Require Import Model.Known Model.RuntimeSpec Model.PointsSpec Proofs.C03 Proofs.C12 Proofs.C12Points.

Definition no_formats : formats := {| sfmt := fun _ => None; nfmt := fun _ => None |}.

(* ---- at most ten: every tree, every value ---- *)
Theorem C12_at_most_ten :
  forall F env f strict order r v es,
    safe_parse F env f strict order r v = Ok (PFailure es) -> List.length es <= 10.
Proof. intros. eapply safe_parse_failure; eauto. Qed.

(* ---- at least one: full statement, refutation, what holds ---- *)
Definition C12_at_least_one : Prop :=
  forall F env f strict path r v es,
    validate F env f strict r v = Ok false -> report F env strict f path r v = Ok es -> es <> [].

(* [number, string] given [1, "a", 2]: TupleRuntype.reportDecodeError knows nothing about surplus items *)
Theorem C12_refuted_no_error : ~ C12_at_least_one.
Proof.
  intros H.
  specialize (H no_formats [] 5 false [] (RTuple [RTypeof TyNumber; RTypeof TyString] None)
                (VArr [VNum (NInt 1); VStr "a"; VNum (NInt 2)]) []).
  vm_compute in H. apply H; reflexivity.
Qed.

Theorem C12_at_least_one_except_known :
  forall F env f strict path r v es,
    c12_plain_env env = true -> c12_plain r = true ->
    validate F env f strict r v = Ok false -> report F env strict f path r v = Ok es -> es <> [].
Proof. intros; eapply report_nonempty; eauto. Qed.

Corollary C12_safeParse_reports_between_1_and_10_except_known :
  forall F env f strict order r v es,
    c12_plain_env env = true -> c12_plain r = true ->
    safe_parse F env f strict order r v = Ok (PFailure es) -> 1 <= List.length es <= 10.
Proof.
  intros F env f strict order r v es He Hr H.
  destruct (safe_parse_failure _ _ _ _ _ _ _ _ H) as [Hv [Hlen [all [Hall ->]]]].
  split; [|assumption].
  pose proof (report_nonempty F env strict He f [] r v all Hr Hv Hall) as Hne.
  destruct all; [congruence|]. cbn. lia.
Qed.

(* ---- safeParse itself must not throw: refuted — a union validator given a bigint
        (deduplicateErrors calls JSON.stringify on the received value) ---- *)
Definition C12_report_never_throws : Prop :=
  forall F env f strict order r v e, safe_parse F env f strict order r v = Throw e -> e = EOutOfFuel.
Theorem C12_refuted_report_throws : ~ C12_report_never_throws.
Proof.
  intros H.
  specialize (H no_formats [] 10 false OrderInput (RAnyOf [RTypeof TyString; RTypeof TyNumber]) (VBig 5) EStringifyBigInt).
  vm_compute in H. specialize (H eq_refl). discriminate H.
Qed.

(* ---- every reported path addresses a position of the input (or a missing property / position of a container that
        exists), `received` is the value found there, and the members of a union error point into its received value
        (Model/PointsSpec.v: Step / Resolves / Points).  Full statement, refutation, what holds. ---- *)
Definition C12_errors_point_into_the_input : Prop :=
  forall F env f strict order r v es,
    safe_parse F env f strict order r v = Ok (PFailure es) -> Forall (Points v) es.

(* { [k: "a"]: any } given {b: 1}: the error for the rejected key is reported at path ["b"] with received "b" (the key),
   while the value at that path is 1 (listed finding index_key_received) *)
Theorem C12_refuted_index_key_received : ~ C12_errors_point_into_the_input.
Proof.
  intros H.
  specialize (H no_formats [] 10 false OrderInput (RObject [] [(RConst (CStr "a"), RAny)]) (VObj [("b", VNum (NInt 1))])
                [ERegular "expected ""a""" ["b"] (VStr "b")] eq_refl).
  inversion H as [|e es He _]; subst. inversion He as [v m p r Hr|]; subst.
  inversion Hr as [|v seg w p u Hs Hr']; subst. inversion Hr'; subst.
  inversion Hs; subst; discriminate.
Qed.

(* every tree whose index signatures have the key type `string`, every environment of such trees, every value *)
Theorem C12_errors_point_into_the_input_except_known :
  forall F env f strict order r v es,
    c12_points_env env = true -> c12_points r = true ->
    safe_parse F env f strict order r v = Ok (PFailure es) -> Forall (Points v) es.
Proof. exact safe_parse_points. Qed.

(* non-vacuity: nested failures inside a union inside an object; the errors point into the input *)
Definition c12_ex_rt : rt :=
  RObject [("a", RAnyOf [RTypeof TyString; RArray (RObject [("x", RTypeof TyNumber)] [])])] [].
Definition c12_ex_val : val := VObj [("a", VArr [VObj [("x", VNum (NInt 1))]; VObj [("x", VStr "s")]])].
Definition c12_ex_errs : list err := [ERegular "expected number" ["a"; "[1]"; "x"] (VStr "s")].
Example C12_nonvacuous :
  c12_plain c12_ex_rt = true /\ c12_points c12_ex_rt = true /\ validate no_formats [] 20 false c12_ex_rt c12_ex_val = Ok false /\
  safe_parse no_formats [] 20 false OrderInput c12_ex_rt c12_ex_val = Ok (PFailure c12_ex_errs) /\
  errors_ok 20 c12_ex_val c12_ex_errs = true.
Proof. repeat split; vm_compute; reflexivity. Qed.

Print Assumptions C12_at_most_ten.
Print Assumptions C12_at_least_one_except_known.
Print Assumptions C12_safeParse_reports_between_1_and_10_except_known.
Print Assumptions C12_errors_point_into_the_input_except_known.
Print Assumptions C12_refuted_index_key_received.
Print Assumptions C12_refuted_no_error.
Print Assumptions C12_refuted_report_throws.
