#!/usr/bin/env python3
"""Entry point of the verification machinery.
   vp.py setup                      build everything from a fresh restore (offline)
   vp.py build [targets...]         (re)build the Coq development
   vp.py check <ID> [--tier quick|thorough]
   vp.py replay <path>
"""
import argparse
import importlib
import os
import sys

sys.path.insert(0, os.path.dirname(os.path.abspath(__file__)))
from lib import common  # noqa: E402


def main():
    ap = argparse.ArgumentParser()
    ap.add_argument("cmd")
    ap.add_argument("args", nargs="*")
    ap.add_argument("--tier", default=os.environ.get("VERIF_TIER", "quick"))
    a = ap.parse_args()
    seed = int(os.environ.get("VERIF_SEED", "1") or 1)
    if a.cmd == "build":
        rc, out, dt = common.coq_build(a.args or None)
        print(out[-3000:])
        print("rc=%d %.1fs" % (rc, dt))
        for p in common.audit_sources():
            print("AUDIT:", p)
        return rc
    if a.cmd == "setup":
        os.makedirs(common.WORK, exist_ok=True)
        dt = common.ensure_harness()
        common.log("harness built in %.0fs" % dt)
        common.ensure_client()
        rc, out, dt = common.coq_build()
        common.log(out[-2000:])
        common.log("coq build rc=%d in %.0fs" % (rc, dt))
        return rc
    if a.cmd == "check":
        prop = a.args[0]
        mod = importlib.import_module("checks." + prop.lower())
        run = common.Run(prop, a.tier, seed)
        run.start_clean()
        try:
            mod.check(run)
        except Exception as e:  # a crash of the machinery is reported as such, never as a pass
            import traceback
            traceback.print_exc()
            run.violation("machinery-error", {"error": repr(e),
                          "what": "the check could not complete; see stderr"}, no_input=True)
        return run.finish()
    if a.cmd == "replay":
        # print the stored case, then run the check again with the same seed and tier (against /repo's current tree) and
        # report whether a violation of the same clause with the same input comes back
        import json
        d = json.load(open(a.args[0]))
        print(json.dumps(d, indent=1)[:6000])
        mod = importlib.import_module("checks." + d["property"].lower())
        run = common.Run(d["property"], d.get("tier", "quick"), d.get("seed", seed), rerun=True)
        run.start_clean()
        try:
            mod.check(run)
        except Exception as e:
            import traceback
            traceback.print_exc()
            print("REPLAY: the check could not complete")
            return 2
        ignore = {"property", "seed", "tier"}
        key = {k: v for k, v in d.items() if k not in ignore}
        same, same_clause = [], []
        for p, _ in run.violations:
            e = json.load(open(p))
            if {k: v for k, v in e.items() if k not in ignore} == key: same.append(p)
            elif e.get("clause") == d.get("clause") and d.get("clause") is not None: same_clause.append(p)
        if same:
            print("REPLAY: reproduced (identical case): %s" % same[0])
            return 1
        if same_clause:
            print("REPLAY: the same clause fails again on %d other input(s), e.g. %s" % (len(same_clause), same_clause[0]))
            return 1
        print("REPLAY: not reproduced on the current tree (%d other violations)" % len(run.violations))
        return 0
    ap.error("unknown command")


if __name__ == "__main__":
    sys.exit(main())
