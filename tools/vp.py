#!/usr/bin/env python3
"""Entry point of the verification machinery.
   vp.py setup                      build everything from a fresh restore (offline)
   vp.py build [targets...]         (re)build the Coq development
   vp.py check <ID> [--tier quick|thorough]
   vp.py replay <path>
"""
import argparse
import importlib
import os
import sys

sys.path.insert(0, os.path.dirname(os.path.abspath(__file__)))
from lib import common  # noqa: E402


def main():
    ap = argparse.ArgumentParser()
    ap.add_argument("cmd")
    ap.add_argument("args", nargs="*")
    ap.add_argument("--tier", default=os.environ.get("VERIF_TIER", "quick"))
    a = ap.parse_args()
    seed = int(os.environ.get("VERIF_SEED", "1") or 1)
    if a.cmd == "build":
        rc, out, dt = common.coq_build(a.args or None)
        print(out[-3000:])
        print("rc=%d %.1fs" % (rc, dt))
        for p in common.audit_sources():
            print("AUDIT:", p)
        return rc
    if a.cmd == "setup":
        os.makedirs(common.WORK, exist_ok=True)
        dt = common.ensure_harness()
        common.log("harness built in %.0fs" % dt)
        common.ensure_client()
        rc, out, dt = common.coq_build()
        common.log(out[-2000:])
        common.log("coq build rc=%d in %.0fs" % (rc, dt))
        return rc
    if a.cmd == "check":
        prop = a.args[0]
        mod = importlib.import_module("checks." + prop.lower())
        run = common.Run(prop, a.tier, seed)
        try:
            mod.check(run)
        except Exception as e:  # a crash of the machinery is reported as such, never as a pass
            import traceback
            traceback.print_exc()
            run.violation("machinery-error", {"error": repr(e),
                          "what": "the check could not complete; see stderr"}, no_input=True)
        return run.finish()
    if a.cmd == "replay":
        import json
        d = json.load(open(a.args[0]))
        mod = importlib.import_module("checks." + d["property"].lower())
        return mod.replay(d)
    ap.error("unknown command")


if __name__ == "__main__":
    sys.exit(main())
