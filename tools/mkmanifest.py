#!/usr/bin/env python3
"""Writes /verif/MANIFEST.json from the table below (one entry per claimed property)."""
import json

COMMON_NOTE = ("Trusted: Coq 8.16.1 kernel + vm_compute (no native_compute, no axioms: every property theorem prints "
               "'Closed under the global context'); the hand-written executable model as far as the correspondence "
               "stream drives it; tsstrip + Node 20 driver / Rust harness; generated tables (Model/Generated.v) extractor. ")

CHECKS = {
 "C02": ("Theorems: C02_flat_schema_sound_on_fragment — for every validator tree of the fragment (primitives, any, nullish, literals, "
         "literal sets, arrays, unions, optional members, closed objects, records, non-recursive named types, descriptions), every "
         "environment and every JSON document, a document valid against the flat schema (Model/JsonSchema.v js_valid, an executable "
         "reading of the Draft 2020-12 keywords beff emits) is accepted by validate(), in strict mode too, i.e. it carries no undeclared "
         "key (Proofs/C02Sound.v, by induction on the printer; removeNullUnionBranch and the required list are covered); "
         "C02_flat_schema_complete_on_fragment — the converse on the sub-fragment whose properties are types that never accept undefined/null "
         "or optional such types: every JSON document without null and with distinct keys that the validator accepts with undeclared keys "
         "disallowed is valid against the flat schema (Proofs/C02Complete.v; Proofs/C02Mono.v: js_valid is monotone in its fuel on the "
         "schemas beff prints in flat mode); C02_flat_unsupported_throws — for every tree/environment/state, a successful flat schema() implies no Date, bigint, Map, Set "
         "or typed array at any position the printer visits; C02_refuted_tuple_without_minItems and C02_refuted_never_is_malformed "
         "exhibit the unchanged code's violations. Ties: every emitted schema (flat and contextual) against Model/Schema.v; js_valid "
         "against python jsonschema on every (emitted schema, document) pair. 'Every emitted $ref resolves' in contextual mode is the theorem "
         "C16_every_ref_resolves_in_the_final_export (Props/C16.v). Outside the two fragments, agreement in contextual mode, well-formedness and the constructs outside the fragment are decided per generated "
         "(type, document) by python jsonschema on the implementation's schemas (search).",
         "Contextual mode, intersections, tuples, dispatch nodes, patterns and formats are not proved (refuted where "
         "false, searched elsewhere); python jsonschema is the oracle for Draft 2020-12; flat schemas of recursive types are outside "
         "the claim, as the property says."),
 "C03": ("Theorems (all trees, environments, values, options): safeParse succeeds iff validate = true (and parse returns iff "
         "safeParse succeeds; failure implies validate = false); validate never throws outside discriminator dispatch "
         "(C03_validate_never_throws_except_known); refutations with witnesses for the throw and for re-validation of the "
         "returned data (Map through a union -> {}; a typed array satisfying a declared `length`). "
         "C03_data_is_accepted_again_except_known (Proofs/C03Data.v): on trees without unions, intersections, discriminated dispatch "
         "and index signatures (distinct property names, none an Object.prototype member), for every environment of such trees, every "
         "input without typed arrays, both key orders: the data safeParse returns is accepted by the same validator under every option, "
         "in particular with undeclared keys disallowed (it consists of declared parts only). The remaining clauses (projection, "
         "idempotence, key order only, no mutation) and the clauses outside that fragment are evaluated by the Gallina spec predicates on the implementation's own outputs (search, labelled "
         "testing). Model tied to codegen-v2.ts by a differential stream over validate/safeParse/parse in 4 option "
         "combinations.",
         "Values are finite trees without getters/proxies or integer-like keys; projection/idempotence/key-order clauses and the "
         "re-validation clause for unions / intersections / index signatures are checked on generated inputs, not proved."),
 "C04": ("Theorems on the one recursion of the pipeline that a model can carry (extract_union: flattening unions through nested "
         "unions and named references, performed by printer and frontend without a visited set): it terminates with fuel h(t)+1 "
         "whenever a height function exists (no named type reaches itself through unions/references only), for every environment; "
         "the unrestricted claim is refuted by `type A = A | string`, which overflows the compiler's stack (known finding). The "
         "property itself is decided by running the compiler: valid programs, one program per unsupported construct, token-level "
         "mutations, enums across modules, missing/cyclic/self imports, default exports (expression, list form, barrel), import types "
         "with arguments, mapped types over no keys and a corpus of past failures, each in its own process under a "
         "watchdog with a panic hook; outcome must be code or >=1 diagnostic whose file is in the project and whose range lies in "
         "that file; every emitted module is imported in Node and must build every requested parser. Two genuine defects found by "
         "this check were repaired in /repo (fix: commits c6ff09c, bf757f0).",
         "swc's parser, malformed text and wall-clock promptness are outside any Gallina model; they are covered by the run (testing). "
         "Only extract_union is modelled; the ~60 other expect/unreachable sites are exercised, not modelled."),
 "C06": ("Theorems (Coq, closed): (1) for every truth assignment of the atoms — i.e. for every value, whatever lists and mappings denote — "
         "and every diagram (no bound on atoms, size, shape or ordering), BddOps::union/intersect/diff/complement and Bdd::from_node "
         "evaluate to the Boolean combination of their operands; bdd_to_dnf and dnf_to_bdd preserve evaluation; (2) sub_vec_union/intersect/diff "
         "compute set union/intersection/difference of literal sets wherever is_subtype is equality; tag codes regenerated from subtype.rs "
         "are distinct bits; (3) SemTypeOps::union/intersect/diff/complement on whole semantic types (C06_semtype_*): for all well-formed "
         "types of the fragment and every valid point, membership in the result is the Boolean combination of the memberships — the "
         "bit-set arithmetic, the SubTypePairIterator merge of the two tag-sorted vectors and the per-tag operations, proved together. "
         "Models of BddOps, DNF, ProperSubtypeOps and SemTypeOps are tied to the Rust engine by syntactic comparison of every result; each "
         "implementation result is additionally judged by complete truth tables / membership tables computed with the Gallina eval / mem.",
         "The diagram operations take fuel in the model (they recurse on results); theorems are about terminating calls and fuel sufficiency "
         "is observed, not proved. Custom formats, template literals with holes and void/undefined are modelled and compared but outside the "
         "proved fragment, as the property states."),
 "C08": ("Theorems on the runtime trees (all trees/values): literal-set dispatch (AnyOfConstsRuntype) and discriminator dispatch "
         "(AnyOfDiscriminatedRuntype with the mapping shape the printer emits) accept exactly what the plain union of their members "
         "accepts; hash256 encoding and hash() are invariant under property/mapping/format order and descriptions; the alias-boundary "
         "clause is refuted (Props/C13.v). The property itself is decided metamorphically on the implementation: random programs and "
         "1-3 random meaning-preserving rewrites are both compiled and compared on validate() over type-directed values and on "
         "hash256(); generic aliases / interfaces (colliding parameter names, a global alias named like a parameter, applications with "
         "non-trivial arguments) are compared with the same type instantiated by hand on the generator's AST.",
         "The frontend lowering and the printer are not modelled in Coq (their output is observed); rewrites come from the generator's "
         "AST; hoisting is sharing of identical sub-validators and has no counterpart in the model."),
 "C09": ("Theorems on the identifier-assignment model (Model/Names.v = to_valid_ts_identifier, min_file_path_that_differs, "
         "TypeAddress::ts_identifier): same-named types of different files get distinct identifiers whenever their sanitised "
         "distinguishing path suffixes differ (all address sets); the unrestricted 'kept apart' clause is refuted with the witness "
         "a-b.ts / a_b.ts, which reproduces on the implementation (known finding). The model is tied to lib.rs by comparing its "
         "identifiers with the keys of the emitted namedRuntypes for every generated project. The splitting clause is decided on the "
         "implementation: random programs are distributed over 1-3 modules with named/type-only/namespace/renamed imports, export-star "
         "barrels, default exports of expressions and re-export chains (typeof of constants included) and compared with the "
         "single-file program on validate() over type-directed values; 2-4 same-named types in flat and nested directories are "
         "referenced side by side; unresolvable references must produce diagnostics.",
         "Import/export binding (bind_exports.rs, the module walkers) is not modelled in Coq; .d.ts/.tsx only select parser options "
         "and import(\"...\") types are not generated; import specifier resolution is the harness rule ./x -> x.ts."),
 "C10": ("Theorems with an explicit order oracle (any permutation of a HashMap's entries): the emitted sequence of named validators "
         "(sorted by name, parser_extractor.rs) is independent of the oracle; the first-error rule of typeof-of-a-namespace depends "
         "on the oracle when two exports fail (refuted, the defect of the pinned tree) and is independent once the entries are visited "
         "in name order (the repaired code, fix: commit e838263). Tie: a syntactic scan lists every iteration over a HashMap-typed "
         "binding in beff-core/src and must equal the sites the model accounts for. The property is observed by compiling every "
         "project several times in fresh processes with shuffled registration order and eager/lazy parsing and comparing bytes, and "
         "three times within one process (state that survives a compilation).",
         "Determinism across processes cannot be stated in Gallina without the oracle; the scan is conservative and syntactic."),
 "C11": ("Theorem C11_except_known (for every validator tree and named environment without an intersection of two or more "
         "run-time members, every value and fuel): validate{strict} = validate{default} && no_extra; C11_refuted exhibits the "
         "unchanged code's counterexample (A & B of named objects); C11_strict_implies_default holds for all trees. The model "
         "(Model/Validate.v) is tied to codegen-v2.ts on every run by differential correspondence; the spec side (no_extra) is "
         "evaluated on the implementation's own answers to search for a failing input.",
         "Values are finite trees without getters/proxies, integer-like or duplicate keys; custom formats are pure."),
 "C01": ("Theorem C01_printed_validator_means_the_IR (Model/Printer.v = print_runtype, Model/Validate.v, Model/Ir.v): for every IR type, "
         "named environment, value and fuels at which both evaluations end, the validator tree the printer emits answers exactly "
         "rmember (membership of the IR type under beff's conventions), for every tree the printer builds structurally — all "
         "constructors except template-literal patterns and the two dispatch forms of unions; tuples are covered when their prefix "
         "elements reject undefined and intersections when their members accept objects only (both read off the printed trees and, for "
         "named members, the printed environment: the two listed findings live exactly outside these side conditions); the two dispatch "
         "forms are proved to accept exactly what the plain union of their members accepts (C01_literal_set_dispatch_is_union, "
         "C01_discriminator_dispatch_is_union), and for unions of literals the link to the IR is closed: whenever the printer emits one "
         "literal-set node for a union (through references, nested unions and de-duplication) that node answers what the IR union "
         "means (C01_literal_union_validator_means_the_union); C01_refuted_for_short_tuples pins the tuple finding on the model. "
         "The printer model is tied to printer.rs by comparing its output on the compiler's own "
         "IR with the tree dumped from the emitted module; the frontend (TypeScript -> IR) is not modelled and is judged on generated "
         "programs by a reference membership of the source type and by rmember of the IR in Coq, on type-directed values (directed by the "
         "emitted tree and, where that differs from the model's print of the same IR, by the model's tree).",
         "Partial: template-literal patterns (regex semantics), tuples with a prefix element that accepts undefined, intersections with a "
         "member that is not object-only (both have known findings) and the link "
         "'members of a discriminator dispatch node = flattened union' are outside the theorem and covered by the search; object types are read as "
         "'non-null objects' (beff's reading), ${number} as TypeScript's in the reference and as the emitted pattern in rmember."),
 "C05": ("Theorems (Model/Subtype.v = SemTypeOps::is_empty/is_subtype/is_same_type; Model/ListEmpty.v = bdd_every_result, "
         "list_formula_is_empty, list_inhabited, list_is_empty without its memo table): C05_difference_is_set_difference (difference of "
         "whole semantic types = set difference, every valid point, every valuation of the atoms); C05_assignable_implies_inclusion: an "
         "'assignable' answer implies inclusion of the denoted sets for all well-formed types, structural components included, provided "
         "the emptiness oracle for lists/mappings is sound on realisable points; C05_list_types_assignable_implies_inclusion discharges "
         "that proviso for lists: for every table of list atoms (arrays, tuples, tuples with rest, nested to any depth, not recursive) "
         "and every pair of well-formed types, an 'assignable' answer of the modelled procedure implies that every value (points and "
         "lists of values, membership by recursion on the value) of the first type is a value of the second (Proofs/ListSound.v: "
         "Frisch's Phi' with shorter lists, positive meets and the escape through a later rest element; Proofs/SemWf.v: difference and "
         "intersection preserve well-formedness); for types whose structural components are lists only the converse is proved too "
         "(C05_list_only_types_not_assignable_has_a_separating_value, Proofs/ListComplete.v), so that there the decision is exactly "
         "inclusion (C05_list_only_types_assignability_is_inclusion); C05_basic_types_assignability_is_inclusion: the same on the basic "
         "fragment; is_same_type answers true exactly when both directions do. The list model is tied to bdd.rs by comparing its three decisions per pair with the engine's, using the engine's "
         "own list atoms. Objects: Model/MappingEmpty.v = mapping.rs intersect_mapping / check_mapping_empty / mapping_is_empty_impl and dnf.rs bdd_to_dnf "
         "for atoms without index signature, tied to the engine on the engine's own object and list atoms; C05_flat_object_clause_empty_iff_covered: "
         "for field types without structural components the clause decider answers 'empty' exactly when every exact record of the positive is an open "
         "record of some negative, and 'not empty' comes with a separating record; C05_flat_object_conjunction_empty_iff_covered: the same for a "
         "conjunction of positive atoms under the engine's merge reading (open member of every atom, no key that none declares) "
         "(Proofs/MappingSound.v; the abstract version is parametric in the element level); string index signatures are modelled (Model/MappingEmptyIx.v), "
         "tied to the engine, and proved to coincide with the proved decider on index-free atoms (C05_index_aware_decider_agrees_on_index_free_atoms). "
         "Partial: the index dimension itself, index signatures over finite / template key sets, the Map variant and the memoised "
         "co-inductive cut (recursive types; a listed finding shows it is unsound) are not proved; there the property is decided on the implementation by comparing every "
         "decision, on generated pairs converted in both orders and queried in two orders, with a bounded enumeration of the exact values "
         "of the left type. Six genuine defects were repaired in /repo (fix: a6cefb8, 16f31f9, 3a0fd83, 10e351d and the third list fix — "
         "both found while proving list_inhabited sound / complete — and 09b6a21).",
         "Bounded enumeration (depth 4, capped breadth, universe = literals of both types + one fresh string/number/key): a missing "
         "separating value is only reported when the enumeration was exhaustive; decisions involving intersections of object types or "
         "unions whose object members overlap as open patterns are listed findings (the exact/open reading of atoms is not a Boolean algebra)."),
 "C07": ("Theorem C07_positive_basic_types_materialise_exactly (Model/Materialise.v = the per-tag part of convert_to_schema_no_cache, "
         "Model/SemSpec.v mem, Model/Ir.v rmember): for every semantic type made of the basic tags and positive literal sets and every basic "
         "value, the materialised IR type denotes exactly the semantic type; C07_refuted_excluded_literal_sets exhibits the unchanged "
         "code's violation for 'number without 1' (bare negation, unprintable, contains null). Partial: the mapping/list clauses, helper "
         "types for recursion, keyof and indexed access are not modelled; they are decided on the implementation: every generated "
         "semantic expression is materialised with semtype_to_runtypes and judged for printability, helper names, is_same_type after "
         "converting back, and meaning on enumerated values. One genuine defect found this way was repaired in /repo (fix: 540a637).",
         "The model is tied to to_schema.rs by comparing its output with the engine's on every semtype without structural components; "
         "value enumeration is bounded (testing); membership is read under the runtime conventions (null ~ undefined, optional may be nullish)."),
 "C14": ("Theorem C14_every_rebuild_answers_like_a_fresh_process: for every parse and extract (the compiler proper is a parameter), "
         "every initial disk and every finite history of rebuilds and updates of existing files (what the watcher produces), each rebuild of the session model (thread-local cache, "
         "get_or_fetch_file, update_file_content_inner) returns what a fresh process returns for the disk at that moment — by the "
         "invariant 'every cached module was parsed from the text the file has now' (C14_cache_stays_coherent); the pinned tree's "
         "update (a text that does not parse keeps the old module) is refuted with a history, reproduced on the implementation and "
         "repaired (fix: 5fd9985); a module created during the session is refuted too (import resolutions are frozen in the cached importer: "
         "listed finding). The model is tied to packages/beff-wasm/src/lib.rs through the beff_verif hook: the cache reported "
         "after every step of generated histories must satisfy the model's step relation (evaluated in Coq), and every rebuild of the "
         "real session is compared with a fresh thread on the same disk.",
         "The theorem assumes extract depends on the file manager only through the answers it gets (hypothesis, argued in DESIGN.md); "
         "the JavaScript host (chokidar, ts.resolveModuleName and its resolvedCache in bundler.ts) is substituted by the hook's in-memory "
         "host and is not executed; the set of file names is constant during a history, as in watch mode."),
 "C15": ("Theorems about Model/Describe.v (describe, describeChildren, collectDescribeRefs, ParserFromRuntype.describe): the alias table "
         "has one entry per name and the rendered list of declarations has no duplicate, every call restores the active set, and "
         "describeChildren() covers every component describe() descends into (C15_aliases_declared_once, C15_describe_restores_active, "
         "C15_children_complete); termination on recursive types (C15_describe_terminates_on_recursive_types: counting enters every "
         "name once, unconditionally; printing never exhausts fuel above (|env|+1)(R+1)(H+1) whenever the types printed in place "
         "descend along a rank function, a decidable condition on the reference counts that the check evaluates on every generated "
         "case). The model is tied to codegen-v2.ts by comparing describe() text on generated validator trees. "
         "Partial: that collectDescribeRefs always yields counts meeting the condition, and the round trip through the compiler, are "
         "not theorems (the compiler frontend is not modelled); the round trip is decided by a search on the implementation: "
         "describe -> compile the text -> validate()/hash256() of both generations.",
         "Descriptions are strings; generated programs use the constructs of tools/lib/tsgen.py plus forced families (recursion through "
         "every container, non-identifier keys, bigint, names Object.prototype defines, generics, doc comments)."),
 "C13": ("Theorems: C13_writer_is_sha256 — for every sequence of writes (all chunkings, block boundaries, both padding branches, "
         "the 64-bit length field) the streaming Hash256Writer returns FIPS 180-4 SHA-256 of the concatenation, by an invariant "
         "over the write list; the constants regenerated from hash.ts equal the FIPS constants; hash256() of every tree = "
         "SHA-256(encoding); the encoding and hash() are independent of property order, mapping order, format order and "
         "descriptions (all trees); C13_equal_streams_accept_the_same_values — for all non-recursive trees (named types along a "
         "rank function, metadata, discriminated unions included; no template-literal patterns), all fuels, format tables, modes "
         "and values: equal byte strings fed to SHA-256 imply equal validation answers (the framing is a prefix code, "
         "C13_framing_is_a_prefix_code; induction on the encoder), hence validators that disagree are hashed from different "
         "bytes (C13_disagreeing_validators_are_hashed_from_different_bytes: equal digests would be a SHA-256 collision); "
         "hash256() terminates on recursive types (C13_hash256_terminates_on_recursive_types: the table of active names is "
         "restored by every call, no fuel from (|env|+1)(H+1) on is exhausted, every environment and tree); "
         "alias-boundary independence is refuted with a witness (cycle ids). The clauses 'real SHA-256' "
         "(against node:crypto), renaming/alias/order/description independence and 'different behaviour => different digest' are "
         "additionally searched on the implementation over generated trees, variants and single-field mutants.",
         "processChunk is shared by the writer model and the FIPS spec (validated by NIST vectors and node:crypto, not proved); "
         "for recursive types (cycle ids) 'different behaviour => different bytes' and alpha-equivalence are searched, not proved; "
         "collision resistance of SHA-256 is outside any proof; localeCompare is modelled as ICU root order on the alphabet of the "
         "sort keys."),
 "C12": ("Theorems: at most ten errors (all trees); at least one error for every rejected value outside the two known call "
         "sites (tuple without rest given surplus items; empty intersection) — C12_at_least_one_except_known, by induction "
         "over the fuel of reportDecodeError for all trees/values; C12_errors_point_into_the_input_except_known — for every tree "
         "whose index signatures have key type string, every environment of such trees and every rejected value, every error "
         "safeParse returns (and, recursively, every member of a union error relative to its received value) has a path that "
         "resolves in the input (object property present or missing, array position, Map key/value, Set member) to exactly the "
         "value reported as `received` (Model/PointsSpec.v, Proofs/C12Points.v: induction over reportDecodeError incl. union error "
         "assembly, depth filtering, de-duplication and prependPath); refutations with witnesses (no error; the key of an index "
         "signature reported as received; JSON.stringify of a bigint thrown out of safeParse). The same clauses and 'rendering is "
         "total and deterministic' are also decided by the Gallina predicate errors_ok / the model's print_errors evaluated on the "
         "implementation's errors (search), and Model/Report.v is tied to the runtime by comparing errors and rendered messages.",
         "Path resolution spec (Model/PointsSpec.v, RuntimeSpec.v) is our reading of 'addresses a position'; strings are printable ASCII."),
 "C16": ("Theorems (all trees, environments, context states, fuels): C16_schema_independent_of_context — two successful contextual "
         "prints of the same validator return the same JSON whatever is already collected or in progress (so every returned schema "
         "and every stored definition body equals the one a fresh context prints); C16_print_preserves_context_invariant — a "
         "successful print restores inProgressDefinitions, only adds definitions, never touches one that is in progress, and every "
         "definition it adds is the contextual schema of the named type (or synthetic variant) it is stored under; hash() is proved "
         "fuel-independent for the synthetic names; C16_every_ref_resolves_in_the_final_export — after any history of successful "
         "schemaWithContext calls on one context (any validators, fuel, ref template, container key, overrides) nothing is in "
         "progress and every $ref / discriminator-mapping target of every returned schema and every stored definition is getRef(n) "
         "of a stored definition (Proofs/C16Refs.v: an invariant through annotate, removeNullUnionBranch, tryMergeAllOfObjectSchemas "
         "and every schema() clause). Order independence, $ref resolution and 'no definition left unfinished' are additionally judged "
         "on the implementation over generated histories (with generated templates, container keys, overrides, hostile type names) "
         "and their permutations against a fresh-context oracle built from newly constructed validators.",
         "The state after a throwing call is not modelled (the model stops there; the implementation is still judged and the known "
         "finding after_throwing_call is reported); order independence of the *set* of exported names is judged on generated "
         "histories (the theorems give: each stored body is context-independent, and every reference resolves)."),
}

TECH = "machine-checked proof in Coq over an executable model + differential correspondence + spec-side search"


def main():
    checks = []
    for pid in sorted(CHECKS):
        text, note = CHECKS[pid]
        checks.append({
            "property_id": pid,
            "quick_cmd": "python3 tools/vp.py check %s --tier quick" % pid,
            "thorough_cmd": "python3 tools/vp.py check %s --tier thorough" % pid,
            "evidence_file": "evidence/%s.json" % pid,
            "replay_cmd_template": "python3 tools/vp.py replay {path}",
            "engine": "coq-model",
            "level_claimed": {"category": "proof", "text": text, "design_ref": "DESIGN.md section 5, %s" % pid},
            "level_note": COMMON_NOTE + note,
            "technique": TECH,
        })
    m = {
        "version": 1,
        "setup_cmd": "python3 tools/vp.py setup",
        "hooks": {
            "guard": "cargo feature beff_verif (crate beff_wasm)",
            "enable": "harness/session depends on beff_wasm with features = [\"beff_verif\"] (cargo build --release --offline in /verif/harness); only the C14 check uses it",
            "baseline_off_cmd": "cd /repo && cargo test --workspace --no-fail-fast --offline",
            "source_commits": ["3c6680c"],
            "add_only": True,
        },
        "engines": [{"name": "coq-model", "path": "coq", "serves_properties": sorted(CHECKS),
                     "kind_free_text": "hand-written executable Gallina models + theorems (Coq 8.16.1), tied to the code by "
                                       "differential correspondence and tables regenerated from /repo on every run"}],
        "checks": checks,
        "not_applicable": [{"property_id": "C%02d" % i,
                            "reason": "check under construction in this build round (model and harness not yet registered); "
                                      "not a claim of inapplicability"}
                           for i in range(1, 17) if "C%02d" % i not in CHECKS],
        "notes": "See DESIGN.md. Known findings of the unchanged tree are listed in known-findings.jsonl; seeded changes in seeded/.",
    }
    json.dump(m, open("/verif/MANIFEST.json", "w"), indent=1)


if __name__ == "__main__":
    main()
