#!/usr/bin/env python3
"""Lists every place where beff-core iterates a std::collections::HashMap- or HashSet-typed field or binding (syntactic, conservative)."""
import glob
import json
import os
import re
import sys

SRC = "/repo/packages/beff-core/src"


def sites():
    files = sorted(glob.glob(os.path.join(SRC, "**/*.rs"), recursive=True))
    texts = {f: open(f).read() for f in files}
    names = set()
    for t in texts.values():
        for m in re.finditer(r"\b(\w+)\s*:\s*(?:&(?:mut\s+)?)?Hash(?:Map|Set)<", t):
            names.add(m.group(1))
        for m in re.finditer(r"let\s+(?:mut\s+)?(\w+)\s*(?::\s*Hash(?:Map|Set)<[^=]*)?=\s*Hash(?:Map|Set)::", t):
            names.add(m.group(1))
    # functions that return a hash container, and the bindings their results (or a `.collect::<HashSet<..>>()`) are given
    fns = set()
    for t in texts.values():
        for m in re.finditer(r"\bfn\s+(\w+)\s*(?:<[^>]*>)?\s*\([^)]*\)\s*->\s*(?:\w+::)*Hash(?:Map|Set)<", t):
            fns.add(m.group(1))
    for t in texts.values():
        if fns:
            for m in re.finditer(r"let\s+(?:mut\s+)?(\w+)\s*(?::[^=]*)?=\s*(?:self\.|Self::)?(%s)\s*\(" % "|".join(sorted(fns)), t):
                names.add(m.group(1))
        for m in re.finditer(r"let\s+(?:mut\s+)?(\w+)\s*(?::[^=]*)?=[^;]*collect::<\s*Hash(?:Map|Set)\b", t):
            names.add(m.group(1))
    out = []
    pat_for = re.compile(r"\bfor\b[^{;]*\bin\b[^{;]*\b(%s)\b" % "|".join(sorted(names))) if names else None
    pat_it = re.compile(r"\b(%s)\b\s*\.\s*(iter|iter_mut|values|values_mut|keys|into_iter|drain|into_values|into_keys)\s*\(" % "|".join(sorted(names))) if names else None
    for f, t in texts.items():
        if f.endswith("test_tools.rs"):
            continue
        lines = t.splitlines()
        skip = set()
        i = 0
        while i < len(lines):
            if re.match(r"\s*#\[cfg\(test\)\]", lines[i]):
                j = i + 1
                if j < len(lines) and re.match(r"\s*(pub\s+)?mod\s+\w+\s*\{", lines[j]):
                    depth = 0
                    k = j
                    while k < len(lines):
                        depth += lines[k].count("{") - lines[k].count("}")
                        skip.add(k)
                        if depth <= 0 and k > j:
                            break
                        k += 1
                    i = k
            i += 1
        for idx, line in enumerate(lines):
            if idx in skip:
                continue
            code = line.split("//")[0]
            m = pat_for.search(code) or pat_it.search(code)
            if m:
                out.append({"file": os.path.relpath(f, SRC), "line": idx + 1, "binding": m.group(1), "text": " ".join(code.split())})
    return sorted(names), out


if __name__ == "__main__":
    names, out = sites()
    json.dump({"hashmap_bindings": names, "sites": out}, sys.stdout, indent=1)
