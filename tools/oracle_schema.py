#!/usr/bin/env python3-vt
"""JSON Schema oracle (python jsonschema, Draft 2020-12).
stdin: one JSON job per line {"id", "schema", "defs"?: {container...}, "docs": [...]}
stdout: {"id", "wellformed": true|"message", "valid": [bool|null...]}"""
import json
import sys
from jsonschema import Draft202012Validator
from jsonschema.exceptions import SchemaError

for line in sys.stdin:
    line = line.strip()
    if not line:
        continue
    job = json.loads(line)
    root = dict(job["schema"]) if isinstance(job["schema"], dict) else job["schema"]
    out = {"id": job["id"]}
    try:
        Draft202012Validator.check_schema(root)
        wf = True
        for name, body in (job.get("defs") or {}).items():
            Draft202012Validator.check_schema(body)
    except SchemaError as e:
        wf = "not well-formed: " + e.message[:160]
    out["wellformed"] = wf
    if isinstance(root, dict) and job.get("defs") is not None:
        # refs look like #/components/schemas/<name>: place the definitions there
        root = dict(root)
        root["components"] = {"schemas": job["defs"]}
    valid = []
    try:
        v = Draft202012Validator(root)
        for d in job["docs"]:
            try:
                valid.append(v.is_valid(d))
            except Exception as e:  # unresolvable $ref, bad regex, ...
                valid.append("error: " + type(e).__name__ + ": " + str(e)[:120])
    except Exception as e:
        valid = ["error: " + str(e)[:120]] * len(job["docs"])
    out["valid"] = valid
    print(json.dumps(out))
