"""Compile-stage helpers: compile generated projects, load the emitted modules, evaluate their validators."""
import json
import re

from . import common, gen
from .vals import *


def num_of(s):
    if s == "NaN": return NAN
    if s == "-0": return NEGZ
    if s in ("Infinity", "-Infinity"): return INF(s.startswith("-"))
    try:
        return I(int(s))
    except ValueError:
        return DEC(s)


def cst_of(c):
    if isinstance(c, dict): return num_of(c["n"])
    return c


def tpl_items_of_description(desc):
    """`a${string}b` -> items (only what value generation needs)"""
    if not (desc.startswith("`") and desc.endswith("`")):
        return [("const", desc.strip('"'))]
    body = desc[1:-1]
    items = []
    for part in re.split(r"(\$\{(?:string|number|boolean)\})", body):
        if not part: continue
        m = re.fullmatch(r"\$\{(string|number|boolean)\}", part)
        items.append((m.group(1),) if m else ("const", part))
    return items


def rt_of_dump(d):
    """modrun `dump` JSON -> validator tree in the tuple syntax of lib/vals.py"""
    t = d[0]
    if t in ("Any", "Never", "Date", "BigInt"): return (t,)
    if t in ("Typeof", "Nullish", "TypedArray", "Ref"): return (t, d[1])
    if t in ("StringFmt", "NumberFmt"): return (t, list(d[1]))
    if t == "Const": return (t, cst_of(d[1]))
    if t == "Regex": return (t, tpl_items_of_description(d[2]), d[2], d[1])
    if t == "AnyOfConsts": return (t, [cst_of(c) for c in d[1]])
    if t == "Tuple": return (t, [rt_of_dump(x) for x in d[1]], None if d[2] is None else rt_of_dump(d[2]))
    if t in ("AllOf", "AnyOf"): return (t, [rt_of_dump(x) for x in d[1]])
    if t in ("Array", "Set", "Optional"): return (t, rt_of_dump(d[1]))
    if t == "Map": return (t, rt_of_dump(d[1]), rt_of_dump(d[2]))
    if t == "Disc": return (t, [rt_of_dump(x) for x in d[1]], d[2], [(k, rt_of_dump(x)) for k, x in d[3]], [(k, rt_of_dump(x)) for k, x in d[4]])
    if t == "Object": return (t, [(k, rt_of_dump(x)) for k, x in d[1]], [(rt_of_dump(a), rt_of_dump(b)) for a, b in d[2]])
    if t == "Meta": return (t, d[1], rt_of_dump(d[2]))
    return ("Any",)


def compile_projects(projects, sformats=(), nformats=(), lazy=False):
    jobs = [{"files": [[n, t] for n, t in files], "entry": "entry.ts", "string_formats": list(sformats),
             "number_formats": list(nformats), "lazy": lazy} for files in projects]
    return common.run_compile(jobs)


def dump_modules(results, sformats=(), nformats=()):
    """For every successfully compiled project: load the module, dump every built parser.
    Returns per project: None | {"parsers": {name: rt}, "env": [(name, rt)], "error": ...}"""
    jobs, idx = [], []
    for i, r in enumerate(results):
        if r.get("outcome") == "code":
            ops = [{"op": "dump", "parser": n} for n in (r.get("decoders") or [])]
            jobs.append({"id": i, "code": r["code"], "sformats": list(sformats), "nformats": list(nformats), "ops": ops})
            idx.append(i)
    outs = common.run_modules(jobs)
    res = [None] * len(results)
    for i, o in zip(idx, outs):
        if not o.get("loaded"):
            res[i] = {"error": o.get("error", "not loaded")}
            continue
        parsers, env = {}, {}
        for name, out in zip(results[i]["decoders"], o["out"]):
            if out.startswith("!"):
                parsers[name] = None
                continue
            d = json.loads(out)
            parsers[name] = rt_of_dump(d["root"])
            for k, v in d["named"].items():
                env[k] = rt_of_dump(v)
        res[i] = {"parsers": parsers, "env": sorted(env.items())}
    return res


def values_for_parsers(dumped, seed, n_vals):
    """type-directed values per parser, from the dumped validator trees"""
    g = gen.Gen(seed)
    out = {}
    for name, rt in dumped["parsers"].items():
        if rt is None:
            out[name] = []
            continue
        vals = [v for v in g.values_for(rt, dumped["env"], n_vals) if not gen.has_bad_keys(v)]
        out[name] = vals
    return out


def eval_modules(items, sformats=(), nformats=()):
    """items: [(code, {parser: [values]}, extra_ops)] -> per item {parser: {"validate": [...], "hash256":, "hash":}}"""
    jobs = []
    for i, (code, pv, extra) in enumerate(items):
        ops = []
        for name, vals in pv.items():
            ops.append({"op": "hash256", "parser": name})
            ops.append({"op": "hash", "parser": name})
            for op in extra:
                ops.append(dict(op, parser=name))
            for v in vals:
                ops.append({"op": "validate", "parser": name, "v": val_canon(v), "strict": False})
        jobs.append({"id": i, "code": code, "sformats": list(sformats), "nformats": list(nformats), "ops": ops})
    outs = common.run_modules(jobs)
    res = []
    for (code, pv, extra), o in zip(items, outs):
        if not o.get("loaded"):
            res.append({"error": o.get("error", "not loaded")})
            continue
        it = iter(o["out"])
        r = {}
        for name, vals in pv.items():
            e = {"hash256": next(it), "hash": next(it)}
            e["extra"] = [next(it) for _ in extra]
            e["validate"] = [next(it) for _ in vals]
            r[name] = e
        res.append(r)
    return res
