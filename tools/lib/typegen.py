"""Generator of IR types (JSON syntax of harness ir_json) for the fragment of C05/C07: null, booleans, numbers, strings,
their literals, arrays, tuples with rest, objects with required/optional properties and index signatures, unions,
intersections and named (possibly recursive) references."""
import random

KEYS = ["a", "b", "c", "k"]
STRS = ["x", "y", "ab"]
NUMS = [0, 1, 7]


def lit_s(s): return ["Tpl", [["const", s]]]
def lit_n(n): return ["Const", {"n": n}]
def lit_b(b): return ["Const", b]


class TypeGen:
    def __init__(self, seed):
        self.r = random.Random(seed)

    def leaf(self):
        r = self.r
        k = r.random()
        if k < 0.14: return ["Null"]
        if k < 0.24: return ["Boolean"]
        if k < 0.32: return lit_b(r.random() < 0.5)
        if k < 0.46: return ["Number"]
        if k < 0.60: return lit_n(r.choice(NUMS))
        if k < 0.76: return ["String"]
        return lit_s(r.choice(STRS))

    def obj(self, depth, names, keys=None, index=None):
        r = self.r
        ks = keys if keys is not None else sorted(r.sample(KEYS, r.randrange(0, 4)))
        if (index is None and r.random() < 0.15) or index:
            # as TypeScript requires, the declared properties conform to the index signature
            vt = self.ty(depth - 1, names)
            props = [[k, [r.random() < 0.65, vt if r.random() < 0.6 else self.narrow(vt, names)]] for k in ks[:2]]
            return ["Object", props, [["String"], [True, vt]]]
        props = [[k, [r.random() < 0.65, self.ty(depth - 1, names)]] for k in ks]
        return ["Object", props, None]

    def ty(self, depth, names):
        r = self.r
        if depth <= 0: return self.leaf()
        k = r.random()
        if k < 0.30: return self.leaf()
        if k < 0.50: return self.obj(depth, names)
        if k < 0.58: return ["Array", self.ty(depth - 1, names)]
        if k < 0.68:
            pre = [self.ty(depth - 1, names) for _ in range(r.randrange(0, 3))]
            rest = self.ty(depth - 1, names) if r.random() < 0.4 else None
            return ["Tuple", pre, rest]
        if k < 0.82: return ["AnyOf", [self.ty(depth - 1, names) for _ in range(r.randrange(2, 4))]]
        if k < 0.88 and not getattr(self, "no_allof", False): return ["AllOf", [self.obj(depth - 1, names, index=False), self.obj(depth - 1, names, index=False)]]
        if k < 0.97 and names: return ["Ref", r.choice(names)]
        return self.leaf()

    def env(self):
        """0-3 named types; recursion goes through an optional property, an array, or a union with null"""
        r = self.r
        n = r.choice([0, 1, 1, 2, 2, 3])
        names = ["entry.ts::N%d" % i for i in range(n)]
        env = []
        for i, nm in enumerate(names):
            q = r.random()
            if q < 0.6:
                body = self.obj(2, names)
                # make recursive references finite: wrap direct required self/other references
                body = ["Object", [[k, [req and not self._refs(t), t]] for k, (req, t) in body[1]], body[2]]
            elif q < 0.8:
                body = ["Tuple", [self.leaf(), ["AnyOf", [["Ref", r.choice(names)], ["Null"]]]], None]
            else:
                body = ["Object", [["v", [True, self.leaf()]], ["next", [False, ["Ref", nm]]]], None]
            env.append([nm, body])
        return env, names

    def _refs(self, t):
        if t[0] == "Ref": return True
        if t[0] in ("AnyOf", "AllOf"): return any(self._refs(x) for x in t[1])
        if t[0] == "Array": return False
        if t[0] == "Tuple": return any(self._refs(x) for x in t[1])
        if t[0] == "Object": return any(req and self._refs(x) for _, (req, x) in t[1])
        return False

    # ---- related pairs
    def widen(self, t, names):
        """a type that should contain t"""
        r = self.r
        k = t[0]
        q = r.random()
        if q < 0.25: return ["AnyOf", [t, self.ty(1, names)]]
        if k == "Const": return ["Boolean"] if isinstance(t[1], bool) else ["Number"]
        if k == "Tpl": return ["String"]
        if k == "Array": return ["Array", self.widen(t[1], names)]
        if k == "Tuple":
            if t[1] and r.random() < 0.5:
                i = r.randrange(len(t[1]))
                return ["Tuple", t[1][:i] + [self.widen(t[1][i], names)] + t[1][i + 1:], t[2]]
            if t[2] is None: return ["Array", ["AnyOf", t[1]]] if t[1] else ["Array", ["Any"]]
            return ["Tuple", t[1], self.widen(t[2], names)]
        if k == "Object":
            props = list(t[1])
            if props and r.random() < 0.7:
                i = r.randrange(len(props))
                name, (req, pt) = props[i]
                ch = r.random()
                if ch < 0.4: props[i] = [name, [False, pt]]                       # required -> optional
                elif ch < 0.7: props[i] = [name, [req, self.widen(pt, names)]]
                else: props = props[:i] + props[i + 1:]                              # drop a property: structurally wider
                return ["Object", props, t[2]]
            return ["Object", props, t[2]]
        if k == "AnyOf": return ["AnyOf", t[1] + [self.ty(1, names)]]
        return ["AnyOf", [t, ["Null"]]]

    def narrow(self, t, names):
        """a type that t should contain (and usually is not contained in)"""
        r = self.r
        k = t[0]
        if k == "Boolean": return lit_b(r.random() < 0.5)
        if k == "Number": return lit_n(r.choice(NUMS))
        if k == "String": return lit_s(r.choice(STRS))
        if k == "AnyOf": return r.choice(t[1])
        if k == "Array": return ["Tuple", [t[1]], None] if r.random() < 0.5 else ["Array", self.narrow(t[1], names)]
        if k == "Object":
            props = list(t[1])
            if props:
                i = r.randrange(len(props))
                name, (req, pt) = props[i]
                props[i] = [name, [True, self.narrow(pt, names)]]
            else:
                props = [["a", [True, ["String"]]]] if t[2] is None else props
            return ["Object", props, t[2]]
        if k == "Tuple" and t[1]:
            i = r.randrange(len(t[1]))
            return ["Tuple", t[1][:i] + [self.narrow(t[1][i], names)] + t[1][i + 1:], t[2]]
        return t

    def split_pair(self, names):
        """an object (or tuple) one of whose components is a union, against the union of the objects (tuples) with one alternative
        each: the same set of values, which only the joint coverage by several right-hand members shows"""
        r = self.r
        alts = [self.leaf() for _ in range(r.randrange(2, 4))]
        if r.random() < 0.3: alts = [["Boolean"]] if r.random() < 0.5 else alts
        others = [[k, [r.random() < 0.7, self.ty(1, names)]] for k in sorted(r.sample(["b", "c"], r.randrange(0, 3)))]
        if alts == [["Boolean"]]:
            whole, parts = ["Boolean"], [lit_b(True), lit_b(False)]
        else:
            whole, parts = ["AnyOf", alts], alts
        if r.random() < 0.7:
            a = ["Object", sorted([["a", [True, whole]]] + others), None]
            b = ["AnyOf", [["Object", sorted([["a", [True, p]]] + others), None] for p in parts]]
        else:
            a = ["Tuple", [whole, self.leaf()], None]
            b = ["AnyOf", [["Tuple", [p, a[1][1]], None] for p in parts]]
        return a, b, "split-union"

    def tail_escape_pair(self, names):
        """a list type whose only values outside the right-hand union escape one member through a *later* rest element:
        [p, ...(l1|l2)[]]  vs  [p', ...l1[]] | [p, l2, ...any[]]   (separating value: [p, l1, l2])"""
        r = self.r
        base = [["String"], ["Number"], ["Boolean"], ["Null"]]
        l1, l2 = r.sample(base, 2)
        npre = r.randrange(0, 3)
        pre = [r.choice(base) for _ in range(npre)]
        rest = ["AnyOf", [l1, l2]]
        a = ["Tuple", pre, rest] if (pre or r.random() < 0.5) else ["Array", rest]
        wide = [(["AnyOf", [p, r.choice([x for x in base if x != p])]] if r.random() < 0.6 else p) for p in pre]
        n1 = ["Tuple", wide, l1] if (wide or r.random() < 0.5) else ["Array", l1]
        n2 = ["Tuple", pre + [l2] + ([r.choice(base)] if r.random() < 0.3 else []), r.choice([["Any"], rest])]
        members = [n1, n2] + ([["Tuple", pre + [self.leaf()], None]] if r.random() < 0.3 else [])
        return a, ["AnyOf", members], "tail-escape"

    def deep_tail_escape_pair(self, names):
        """(l1|l2)[]  vs  [] | [l2, l2, ...rest] | [l1, ...rest] | [l1|l2, ...l1[]] (| a longer alternative): the escaping element
        has to be tried at positions up to the longest prefix of ANY remaining alternative, not only the next one
        (separating value: [l2, l1, l2])"""
        r = self.r
        base = [["String"], ["Number"], ["Boolean"], ["Null"]]
        l1, l2 = r.sample(base, 2)
        rest = ["AnyOf", [l1, l2]]
        a = ["Array", rest]
        members = [["Tuple", [], None], ["Tuple", [l2, l2], rest], ["Tuple", [l1], rest], ["Tuple", [rest], l1]]
        if r.random() < 0.5: members.append(["Tuple", [l2, l1, l2], rest])       # then [l2, l1, l1, l2] separates
        if r.random() < 0.3: members.append(["Tuple", [l2], None])
        r.shuffle(members)
        return a, ["AnyOf", members], "deep-tail-escape"

    def length_gap_pair(self, names):
        """a list type against a union of list types that covers some lengths and leaves a gap (or not):
        [p.., ...T[]]  vs  [p..] | [p.., T, T, ...T[]]   (separating value: [p.., t], unless the gap is filled)"""
        r = self.r
        t = r.choice([["String"], ["Number"], ["Boolean"], self.leaf()])
        pre = [self.leaf() for _ in range(r.randrange(0, 3))]
        a = ["Tuple", pre, t] if (pre or r.random() < 0.5) else ["Array", t]
        lens = sorted(r.sample(range(0, 5), r.randrange(1, 4)))          # exact lengths covered by closed tuples
        tail_from = r.randrange(1, 5)                                      # ... and every length from here on
        members = [["Tuple", pre + [t] * k, None] for k in lens] + [["Tuple", pre + [t] * tail_from, t]]
        return a, ["AnyOf", members], "length-gap"

    def list_intersection_pair(self, names):
        """an intersection of two list types of different shapes (closed tuple / tuple with rest / array), wrapped in unions with
        distinct basic members so that either list type can be the one converted first, against one of the operands or the
        expected meet"""
        r = self.r
        base = [["String"], ["Number"], ["Boolean"]]
        common = r.choice(base)
        def lst():
            t = common if r.random() < 0.8 else r.choice(base)
            k = r.random()
            if k < 0.3: return ["Array", t]
            pre = [t if r.random() < 0.8 else r.choice(base) for _ in range(r.randrange(1, 3))]
            return ["Tuple", pre, t if k < 0.65 else None]
        x, y = lst(), lst()
        w1, w2 = (["Null"], ["Boolean"]) if r.random() < 0.5 else (["Boolean"], ["Null"])
        a = ["AllOf", [["AnyOf", [w1, x]], ["AnyOf", [w2, y]]]]
        b = r.choice([x, y, ["Never"], ["AnyOf", [x, ["Null"]]]])
        return (a, b, "list-intersection") if r.random() < 0.7 else (b, a, "list-intersection")

    def literal_cover_pair(self, names):
        """a wide primitive at one position against a union of three or more alternatives whose literal sets at that position
        overlap, the widest last (successive subtraction of literal sets: (number \\ {1}) \\ {2} ...):
        [number] vs [1] | [2] | [1|2|3]   (separating value: [4])"""
        r = self.r
        kind = r.choice(["n", "n", "s"])
        wide = ["Number"] if kind == "n" else ["String"]
        lit = (lambda k: lit_n(k)) if kind == "n" else (lambda k: lit_s("abcdef"[k]))
        k = r.randrange(2, 5)
        small = [[i] if r.random() < 0.7 else sorted(r.sample(range(k), min(k, 2))) for i in range(k)]
        cover = sorted(set(x for sset in small for x in sset) | ({k} if r.random() < 0.7 else set()))
        alts = small + [cover]
        if r.random() < 0.25: r.shuffle(alts)
        def lits(sset): return lit(sset[0]) if len(sset) == 1 else ["AnyOf", [lit(x) for x in sset]]
        shape = r.choice(["tuple", "tuple2", "tuple-rest", "object", "nested"])
        other = r.choice([["String"], ["Boolean"], ["Null"]])
        def wrap(x):
            if shape == "tuple": return ["Tuple", [x], None]
            if shape == "tuple2": return ["Tuple", [other, x], None]
            if shape == "tuple-rest": return ["Tuple", [x], other]
            if shape == "object": return ["Object", [["a", [True, x]], ["b", [True, other]]], None]
            return ["Object", [["t", [True, ["Tuple", [x], None]]]], None]
        a = wrap(wide if r.random() < 0.8 else ["AnyOf", [wide, ["Null"]]])
        return a, ["AnyOf", [wrap(lits(sset)) for sset in alts]], "literal-cover"

    def index_split_pair(self, names):
        """an object type with a string index signature over a union against the union of the object types with one member each
        (an object escapes the alternatives through different extra keys): {[k]: A | B} vs {[k]: A} | {[k]: B}, with and without
        declared properties, the index value optional or not, sometimes an alternative that does cover"""
        r = self.r
        base = [["String"], ["Number"], ["Boolean"], ["Null"], lit_s("a"), lit_n(1)]
        k = r.randrange(2, 4)
        parts = r.sample(base, k)
        declared = [["id", [True, r.choice(base)]]] if r.random() < 0.4 else []
        req = r.random() < 0.8
        def obj(v, decl=True): return ["Object", list(declared) if decl else [], [["String"], [req, v]]]
        a = obj(["AnyOf", parts])
        alts = [obj(p) for p in parts]
        if r.random() < 0.25: alts.append(obj(["AnyOf", parts]))               # covered after all
        if r.random() < 0.2: alts[0] = obj(["AnyOf", parts[:2]])                 # a wider first alternative
        if r.random() < 0.2: alts.append(["Object", [["zz", [False, parts[0]]]], None])
        r.shuffle(alts)
        return a, ["AnyOf", alts], "index-split"

    def index_key_pair(self, names):
        """index signatures whose key types differ: a template-literal pattern ({[k: `${number}`]: V}) against `string` keys with
        another value type, against declared properties matching the pattern, nested and inside unions, in both directions"""
        r = self.r
        base = [["String"], ["Number"], ["Boolean"], lit_s("x"), lit_n(1)]
        pat = ["Tpl", [["number"]]]          # `${number}`: the engine compares single-item patterns only
        v1, v2 = r.sample(base, 2)
        if r.random() < 0.3: v2 = ["AnyOf", [v1, v2]]
        req = r.random() < 0.8
        fin = ["Object", [], [pat, [req, v1]]]
        wide = ["Object", [], [["String"], [req, v2]]]
        shape = r.randrange(6)
        if shape == 0: a, b = fin, wide
        elif shape == 1: a, b = ["Object", [["12", [True, v1]]], [["String"], [True, v2]]], fin
        elif shape == 2: a, b = fin, ["Object", [["12", [False, v1]]], [["String"], [True, v2]]]
        elif shape == 3: a, b = ["Array", fin], ["Array", wide]
        elif shape == 4: a, b = ["AnyOf", [fin, ["Null"]]], ["AnyOf", [wide, ["Null"]]]
        else: a, b = ["Object", [["p", [True, fin]]], None], ["Object", [["p", [True, wide]]], None]
        if r.random() < 0.3: a, b = b, a
        return a, b, "index-keys"

    def pair(self, names):
        r = self.r
        if r.random() < 0.05: return self.index_key_pair(names)
        if r.random() < 0.12: return self.split_pair(names)
        if r.random() < 0.05: return self.index_split_pair(names)
        if r.random() < 0.06: return self.literal_cover_pair(names)
        if r.random() < 0.05: return self.list_intersection_pair(names)
        if r.random() < 0.06: return self.tail_escape_pair(names)
        if r.random() < 0.04: return self.deep_tail_escape_pair(names)
        if r.random() < 0.06: return self.length_gap_pair(names)
        a = self.ty(3, names)
        q = r.random()
        if q < 0.3: return a, self.ty(3, names), "random"
        if q < 0.6: return a, self.widen(a, names), "widened"
        if q < 0.8: return self.narrow(a, names), a, "narrowed"
        if q < 0.9: return a, self.narrow(a, names), "reverse-narrowed"
        return ["AnyOf", [a, self.ty(2, names)]], a, "union-vs-member"
