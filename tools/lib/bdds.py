"""Decision diagrams and semtypes: generators and concrete syntaxes (engine JSON, Coq terms, canonical text)."""
import json
import random

KINDS = {"M": "AMapping", "L": "AList", "P": "AMap", "S": "ASet"}
KIND_ORDER = {"M": 0, "L": 1, "P": 2, "S": 3}


def atom_key(a):
    return (KIND_ORDER[a[0]], a[1])


def bdd_coq(b):
    if b is True: return "BTrue"
    if b is False: return "BFalse"
    return "(BNode (mkAtom %s %d%%N) %s %s %s)" % (KINDS[b[0]], b[1], bdd_coq(b[2]), bdd_coq(b[3]), bdd_coq(b[4]))


def bdd_show(b):
    if b is True: return "T"
    if b is False: return "F"
    return "(%s%d %s %s %s)" % (b[0], b[1], bdd_show(b[2]), bdd_show(b[3]), bdd_show(b[4]))


def bdd_atoms(b, acc=None):
    acc = set() if acc is None else acc
    if b is True or b is False: return acc
    acc.add((b[0], b[1]))
    for x in b[2:]: bdd_atoms(x, acc)
    return acc


def bdd_size(b):
    if b is True or b is False: return 1
    return 1 + sum(bdd_size(x) for x in b[2:])


def atom(a):
    return [a[0], a[1], True, False, False]


def random_ordered(r, atoms, depth):
    """a diagram whose atoms increase along every path (what the engine itself builds)"""
    if not atoms or depth <= 0 or r.random() < 0.25:
        return r.choice([True, False, False, True])
    i = r.randrange(len(atoms))
    rest = atoms[i + 1:]
    m = random_ordered(r, rest, depth - 1)
    if m is True and r.random() < 0.8:
        m = False
    return [atoms[i][0], atoms[i][1], random_ordered(r, rest, depth - 1), m, random_ordered(r, rest, depth - 1)]


def random_any(r, atoms, depth):
    """an arbitrary tree over the atoms (no ordering discipline)"""
    if depth <= 0 or r.random() < 0.3:
        return r.choice([True, False])
    a = r.choice(atoms)
    return [a[0], a[1], random_any(r, atoms, depth - 1), random_any(r, atoms, depth - 1), random_any(r, atoms, depth - 1)]


def dnf_coq(d):
    def al(l): return "[" + "; ".join("(mkAtom %s %d%%N)" % (KINDS[a[0]], a[1]) for a in l) + "]"
    return "[" + "; ".join("(%s, %s)" % (al(c[0]), al(c[1])) for c in d) + "]"


def dnf_show(d):
    def al(l): return ",".join("%s%d" % (a[0], a[1]) for a in l)
    return ";".join(al(c[0]) + "|" + al(c[1]) for c in d)


# ---------------------------------------------------------------- semtypes
TAGS = [("Boolean", 1), ("Number", 2), ("String", 3), ("Null", 4), ("Mapping", 5), ("OptionalProp", 6), ("List", 7),
        ("BigInt", 8), ("Date", 9), ("VoidUndefined", 10), ("TypedArray", 11), ("Map", 12), ("Set", 13)]
TAG_SHIFT = dict(TAGS)
PROPER_TAG = {"Boolean": "Boolean", "Number": "Number", "String": "String", "Mapping": "Mapping", "List": "List",
              "VoidUndefined": "VoidUndefined", "TypedArray": "TypedArray", "Map": "Map", "Set": "Set"}
TYPED = ["Uint8Array", "Uint8ClampedArray", "Uint16Array", "Uint32Array", "Int8Array", "Int16Array", "Int32Array",
         "Float32Array", "Float64Array", "BigInt64Array", "BigUint64Array"]


def coq_str(s):
    return '"' + s.replace('"', '""') + '"'


def clist(items):
    return "[" + "; ".join(items) + "]"


def tpl_item_coq(i):
    if i == "string": return "TplString"
    if i == "number": return "TplNumber"
    if i == "boolean": return "TplBoolean"
    return "(TplConst %s)" % coq_str(i[1])


def proper_coq(p):
    t = p[0]
    b = lambda x: "true" if x else "false"
    if t == "Boolean": return "(PBoolean %s)" % b(p[1])
    if t == "Number":
        return "(PNumber %s %s)" % (b(p[1]), clist(("(NLit (%d))" % v[1]) if v[0] == "Lit" else "(NFormat %s %s)" % (coq_str(v[1]), clist(coq_str(a) for a in v[2])) for v in p[2]))
    if t == "String":
        return "(PString %s %s)" % (b(p[1]), clist(("(STpl %s)" % clist(tpl_item_coq(i) for i in v[1])) if v[0] == "Tpl" else "(SFormat %s %s)" % (coq_str(v[1]), clist(coq_str(a) for a in v[2])) for v in p[2]))
    if t == "TypedArray": return "(PTypedArray %s %s)" % (b(p[1]), clist(p[2]))
    if t == "VoidUndefined": return "(PVoidUndefined %s %s)" % (b(p[1]), clist("V" + x for x in p[2]))
    return "(P%s %s)" % (t, bdd_coq(p[1]))


def sem_coq(t):
    return "(mkSem %d%%N %s)" % (t["all"], clist(proper_coq(p) for p in t["data"]))


def show_tpl_item(i):
    if isinstance(i, str): return "${%s}" % i
    if i[0] == "const": return '"' + i[1].replace("\\", "\\\\").replace('"', '\\"') + '"'
    return "(" + "|".join(show_tpl_item(x) for x in i[1]) + ")"


def show_proper(p):
    t = p[0]
    fl = lambda a: "+" if a else "-"
    if t == "Boolean": return "Boolean(%s)" % ("t" if p[1] else "f")
    if t == "Number":
        vs = sorted(("#%d" % int(v[1])) if v[0] == "Lit" else "fmt:%s<%s>" % (v[1], ",".join(v[2])) for v in p[2])
        return "Number%s{%s}" % (fl(p[1]), ",".join(vs))
    if t == "String":
        vs = sorted(("tpl:" + "".join(show_tpl_item(i) for i in v[1])) if v[0] == "Tpl" else "fmt:%s<%s>" % (v[1], ",".join(v[2])) for v in p[2])
        return "String%s{%s}" % (fl(p[1]), ",".join(vs))
    if t == "TypedArray": return "TypedArray%s{%s}" % (fl(p[1]), ",".join(sorted(p[2])))
    if t == "VoidUndefined": return "VoidUndefined%s{%s}" % (fl(p[1]), ",".join(sorted(p[2])))
    return t + bdd_show(p[1])


def show_sem(t):
    if "err" in t: return "!Bail"
    return "%d[%s]" % (t["all"], ";".join(show_proper(p) for p in t["data"]))


def random_semtype(r, atoms_by_kind, formats=False):
    """a well-formed semtype: data sorted by tag code, disjoint from `all`, literal lists non-empty"""
    all_bits, data = 0, []
    for name, shift in TAGS:
        k = r.random()
        if k < 0.3:
            all_bits |= 1 << shift
        elif k < 0.65 and name in PROPER_TAG:
            if name == "Boolean": data.append(["Boolean", r.random() < 0.5])
            elif name == "Number":
                vs = [["Lit", x] for x in sorted(r.sample([0, 1, 2, 3, 7], r.randrange(1, 4)))]
                if formats and r.random() < 0.3: vs.append(["Format", r.choice(["f", "g"]), r.sample(["x", "y"], r.randrange(0, 2))])
                data.append(["Number", r.random() < 0.6, vs])
            elif name == "String":
                vs = [["Tpl", [["const", s]]] for s in sorted(r.sample(["a", "b", "c", "d"], r.randrange(1, 4)))]
                if formats and r.random() < 0.3: vs.append(["Format", r.choice(["f", "g"]), r.sample(["x", "y"], r.randrange(0, 2))])
                if formats and r.random() < 0.15: vs.append(["Tpl", ["string", ["const", "z"]]])
                data.append(["String", r.random() < 0.6, vs])
            elif name == "TypedArray":
                data.append(["TypedArray", r.random() < 0.6, r.sample(TYPED, r.randrange(1, 4))])
            elif name == "VoidUndefined":
                if formats: data.append(["VoidUndefined", r.random() < 0.6, r.sample(["Void", "Undefined"], r.randrange(1, 3))])
            else:
                kind = {"Mapping": "M", "List": "L", "Map": "P", "Set": "S"}[name]
                data.append([name, random_ordered(r, atoms_by_kind[kind], 3)])
    return {"all": all_bits, "data": data}
