"""Value trees, validator trees and their three concrete syntaxes (canonical text, Coq term, driver JSON)."""
import json

# ---------------------------------------------------------------- values
# ("u",) ("n",) ("b",bool) ("num",kind,payload) ("s",str) ("big",int) ("sym",) ("fun",) ("date",ms) ("re",)
# ("arr",[v]) ("obj",[(k,v)]) ("map",[(k,v)]) ("set",[v]) ("typed",kind,[int])
U = ("u",)
NUL = ("n",)
def B(b): return ("b", bool(b))
def I(z): return ("num", "int", int(z))
def DEC(s): return ("num", "dec", s)
NAN = ("num", "nan", None)
NEGZ = ("num", "negzero", None)
def INF(neg=False): return ("num", "inf", neg)
def S(s): return ("s", s)
def BIG(z): return ("big", int(z))
SYM = ("sym",)
FUN = ("fun",)
def DATE(ms): return ("date", int(ms))
REGEXP = ("re",)
def ARR(xs): return ("arr", list(xs))
def OBJ(kvs): return ("obj", list(kvs))
def MAP(kvs): return ("map", list(kvs))
def SET(xs): return ("set", list(xs))
def TYPED(kind, xs): return ("typed", kind, list(xs))

TYPED_KINDS = ["Uint8Array", "Uint8ClampedArray", "Uint16Array", "Uint32Array", "Int8Array", "Int16Array",
               "Int32Array", "Float32Array", "Float64Array", "BigInt64Array", "BigUint64Array"]


def esc(s):
    return '"' + s.replace("\\", "\\\\").replace('"', '\\"') + '"'


def coq_str(s):
    return '"' + s.replace('"', '""') + '"'


def num_canon(n):
    _, kind, p = n
    if kind == "int":
        return str(p)
    if kind == "dec":
        return p
    if kind == "nan":
        return "NaN"
    if kind == "negzero":
        return "-0"
    return "-Infinity" if p else "Infinity"


def num_coq(n):
    _, kind, p = n
    if kind == "int":
        return "(NInt (%d))" % p
    if kind == "dec":
        return "(NDec %s)" % coq_str(p)
    if kind == "nan":
        return "NNaN"
    if kind == "negzero":
        return "NNegZero"
    return "(NInf %s)" % ("true" if p else "false")


def val_canon(v):
    t = v[0]
    if t == "u": return "u"
    if t == "n": return "n"
    if t == "b": return "t" if v[1] else "f"
    if t == "num": return "#" + num_canon(v)
    if t == "s": return esc(v[1])
    if t == "big": return "B%d" % v[1]
    if t == "sym": return "S"
    if t == "fun": return "F"
    if t == "date": return "D%d" % v[1]
    if t == "re": return "R"
    if t == "arr": return "[" + ",".join(val_canon(x) for x in v[1]) + "]"
    if t == "obj": return "{" + ",".join(esc(k) + ":" + val_canon(x) for k, x in v[1]) + "}"
    if t == "map": return "M[" + ",".join(val_canon(k) + ":" + val_canon(x) for k, x in v[1]) + "]"
    if t == "set": return "E[" + ",".join(val_canon(x) for x in v[1]) + "]"
    if t == "typed": return "Y" + v[1] + "[" + ",".join(str(x) for x in v[2]) + "]"
    raise ValueError(v)


def coq_list(items):
    return "[" + "; ".join(items) + "]"


def val_coq(v):
    t = v[0]
    if t == "u": return "VUndef"
    if t == "n": return "VNull"
    if t == "b": return "(VBool %s)" % ("true" if v[1] else "false")
    if t == "num": return "(VNum %s)" % num_coq(v)
    if t == "s": return "(VStr %s)" % coq_str(v[1])
    if t == "big": return "(VBig (%d))" % v[1]
    if t == "sym": return "VSym"
    if t == "fun": return "VFun"
    if t == "date": return "(VDate (%d))" % v[1]
    if t == "re": return "VRegExp"
    if t == "arr": return "(VArr %s)" % coq_list(val_coq(x) for x in v[1])
    if t == "obj": return "(VObj %s)" % coq_list("(%s, %s)" % (coq_str(k), val_coq(x)) for k, x in v[1])
    if t == "map": return "(VMap %s)" % coq_list("(%s, %s)" % (val_coq(k), val_coq(x)) for k, x in v[1])
    if t == "set": return "(VSet %s)" % coq_list(val_coq(x) for x in v[1])
    if t == "typed": return "(VTyped %s %s)" % (v[1], coq_list("(%d)%%Z" % x for x in v[2]))
    raise ValueError(v)


def val_size(v):
    t = v[0]
    if t in ("arr", "set"): return 1 + sum(val_size(x) for x in v[1])
    if t == "obj": return 1 + sum(val_size(x) for _, x in v[1])
    if t == "map": return 1 + sum(val_size(k) + val_size(x) for k, x in v[1])
    return 1


# ---------------------------------------------------------------- constants of validators
# cst: None | bool | ("num",...) | str
def cst_json(c):
    if isinstance(c, tuple):
        return {"n": num_canon(c)}
    return c


def cst_coq(c):
    if c is None: return "CNull"
    if isinstance(c, bool): return "(CBool %s)" % ("true" if c else "false")
    if isinstance(c, tuple): return "(CNum %s)" % num_coq(c)
    return "(CStr %s)" % coq_str(c)


def cst_val(c):
    if c is None: return NUL
    if isinstance(c, bool): return B(c)
    if isinstance(c, tuple): return c
    return S(c)


# ---------------------------------------------------------------- template-literal items
# ("string",) ("number",) ("boolean",) ("const", s) ("oneof", [items])
def escape_regex(lit):
    for ch in ["\\", "(", ")", "[", "]", "{", "}", ".", "*", "+", "?", "|", "^", "$", "/"]:
        lit = lit.replace(ch, "\\" + ch)
    return lit


def tpl_item_source(i):
    t = i[0]
    if t == "string": return "(.*)"
    if t == "number": return r"(\d+(\.\d+)?)"
    if t == "boolean": return "(true|false)"
    if t == "const": return "" if i[1] == "" else "(" + escape_regex(i[1]) + ")"
    if t == "oneof":
        parts = [tpl_item_source(x) for x in i[1]]
        return "(" + "|".join(p for p in parts if p != "") + ")" + ("?" if any(p == "" for p in parts) else "")
    raise ValueError(i)


def tpl_source(items):
    return "".join(tpl_item_source(i) for i in items)


def tpl_item_coq(i):
    t = i[0]
    if t == "string": return "TplString"
    if t == "number": return "TplNumber"
    if t == "boolean": return "TplBoolean"
    if t == "const": return "(TplConst %s)" % coq_str(i[1])
    return "(TplOneOf %s)" % coq_list(tpl_item_coq(x) for x in i[1])


def tpl_item_describe(i, top=True):
    t = i[0]
    if t == "string": return "${string}"
    if t == "number": return "${number}"
    if t == "boolean": return "${boolean}"
    if t == "const": return i[1]
    return "(" + " | ".join(tpl_describe([x]) for x in i[1]) + ")"


def tpl_describe(items):
    if len(items) == 1 and items[0][0] == "const":
        return '"%s"' % items[0][1]
    return "`" + "".join(tpl_item_describe(i) for i in items) + "`"


# ---------------------------------------------------------------- validator trees
# ("Typeof",t) ("Any",) ("Nullish",d) ("Never",) ("Const",c) ("Regex",items,desc) ("Date",) ("BigInt",)
# ("TypedArray",k) ("StringFmt",[f]) ("NumberFmt",[f]) ("AnyOfConsts",[c]) ("Tuple",[r],rest|None) ("AllOf",[r])
# ("AnyOf",[r]) ("Array",r) ("Map",k,v) ("Set",r) ("Disc",[r],disc,[(k,r)],[(k,r)]) ("Optional",r)
# ("Object",[(k,r)],[(kr,vr)]) ("Ref",name) ("Meta",desc,r)
def rt_json(r):
    t = r[0]
    if t in ("Any", "Never", "Date", "BigInt"): return [t]
    if t in ("Typeof", "Nullish", "TypedArray", "StringFmt", "NumberFmt", "Ref"): return [t, r[1]]
    if t == "Const": return [t, cst_json(r[1])]
    if t == "Regex": return [t, tpl_source(r[1]), r[2]]
    if t == "AnyOfConsts": return [t, [cst_json(c) for c in r[1]]]
    if t == "Tuple": return [t, [rt_json(x) for x in r[1]], None if r[2] is None else rt_json(r[2])]
    if t in ("AllOf", "AnyOf"): return [t, [rt_json(x) for x in r[1]]]
    if t in ("Array", "Set", "Optional"): return [t, rt_json(r[1])]
    if t == "Map": return [t, rt_json(r[1]), rt_json(r[2])]
    if t == "Disc":
        return [t, [rt_json(x) for x in r[1]], r[2], [[k, rt_json(x)] for k, x in r[3]],
                [[k, rt_json(x)] for k, x in r[4]]]
    if t == "Object":
        return [t, [[k, rt_json(x)] for k, x in r[1]], [[rt_json(a), rt_json(b)] for a, b in r[2]]]
    if t == "Meta": return [t, r[1], rt_json(r[2])]
    raise ValueError(r)


TYNAME = {"string": "TyString", "number": "TyNumber", "boolean": "TyBoolean"}


def rt_coq(r):
    t = r[0]
    if t == "Typeof": return "(RTypeof %s)" % TYNAME[r[1]]
    if t == "Any": return "RAny"
    if t == "Nullish": return "(RNullish %s)" % coq_str(r[1])
    if t == "Never": return "RNever"
    if t == "Const": return "(RConst %s)" % cst_coq(r[1])
    if t == "Regex": return "(RRegex %s %s)" % (coq_list(tpl_item_coq(i) for i in r[1]), coq_str(r[2]))
    if t == "Date": return "RDate"
    if t == "BigInt": return "RBigInt"
    if t == "TypedArray": return "(RTypedArray %s)" % coq_str(r[1])
    if t == "StringFmt": return "(RStringFmt %s)" % coq_list(coq_str(f) for f in r[1])
    if t == "NumberFmt": return "(RNumberFmt %s)" % coq_list(coq_str(f) for f in r[1])
    if t == "AnyOfConsts": return "(RAnyOfConsts %s)" % coq_list(cst_coq(c) for c in r[1])
    if t == "Tuple":
        return "(RTuple %s %s)" % (coq_list(rt_coq(x) for x in r[1]),
                                   "None" if r[2] is None else "(Some %s)" % rt_coq(r[2]))
    if t == "AllOf": return "(RAllOf %s)" % coq_list(rt_coq(x) for x in r[1])
    if t == "AnyOf": return "(RAnyOf %s)" % coq_list(rt_coq(x) for x in r[1])
    if t == "Array": return "(RArray %s)" % rt_coq(r[1])
    if t == "Map": return "(RMap %s %s)" % (rt_coq(r[1]), rt_coq(r[2]))
    if t == "Set": return "(RSet %s)" % rt_coq(r[1])
    if t == "Disc":
        return "(RDisc %s %s %s %s)" % (
            coq_list(rt_coq(x) for x in r[1]), coq_str(r[2]),
            coq_list("(%s, %s)" % (coq_str(k), rt_coq(x)) for k, x in r[3]),
            coq_list("(%s, %s)" % (coq_str(k), rt_coq(x)) for k, x in r[4]))
    if t == "Optional": return "(ROptional %s)" % rt_coq(r[1])
    if t == "Object":
        return "(RObject %s %s)" % (
            coq_list("(%s, %s)" % (coq_str(k), rt_coq(x)) for k, x in r[1]),
            coq_list("(%s, %s)" % (rt_coq(a), rt_coq(b)) for a, b in r[2]))
    if t == "Ref": return "(RRef %s)" % coq_str(r[1])
    if t == "Meta": return "(RMeta %s %s)" % (coq_str(r[1]), rt_coq(r[2]))
    raise ValueError(r)


def env_coq(env):
    return coq_list("(%s, %s)" % (coq_str(k), rt_coq(v)) for k, v in env)


def env_json(env):
    return {k: rt_json(v) for k, v in env}


def rt_children(r):
    t = r[0]
    if t == "Tuple": return list(r[1]) + ([] if r[2] is None else [r[2]])
    if t in ("AllOf", "AnyOf"): return list(r[1])
    if t in ("Array", "Set", "Optional"): return [r[1]]
    if t == "Map": return [r[1], r[2]]
    if t == "Disc": return list(r[1]) + [x for _, x in r[3]] + [x for _, x in r[4]]
    if t == "Object": return [x for _, x in r[1]] + [y for ab in r[2] for y in ab]
    if t == "Meta": return [r[2]]
    return []


def rt_nodes(r):
    yield r
    for c in rt_children(r):
        yield from rt_nodes(c)


def rt_size(r):
    return sum(1 for _ in rt_nodes(r))


# ---------------------------------------------------------------- parsing the canonical text (results of the Node driver)
class _P:
    def __init__(self, t):
        self.t, self.i = t, 0

    def peek(self):
        return self.t[self.i] if self.i < len(self.t) else ""

    def expect(self, c):
        if self.t[self.i:self.i + len(c)] != c:
            raise ValueError("canon: expected %r at %d in %r" % (c, self.i, self.t[:200]))
        self.i += len(c)

    def string(self):
        self.expect('"')
        out = []
        while self.t[self.i] != '"':
            if self.t[self.i] == "\\":
                self.i += 1
            out.append(self.t[self.i])
            self.i += 1
        self.i += 1
        return "".join(out)

    def list(self, close, item):
        out = []
        if self.peek() == close:
            self.i += 1
            return out
        while True:
            out.append(item())
            if self.peek() == ",":
                self.i += 1
                continue
            self.expect(close)
            return out

    def word(self, chars):
        j = self.i
        while self.i < len(self.t) and self.t[self.i] in chars:
            self.i += 1
        return self.t[j:self.i]

    def val(self):
        c = self.t[self.i]
        self.i += 1
        if c == "u": return U
        if c == "n": return NUL
        if c == "t": return B(True)
        if c == "f": return B(False)
        if c == "#":
            s = self.word("-+0123456789.eInfinityNa")
            if s == "NaN": return NAN
            if s == "-0": return NEGZ
            if s == "Infinity": return INF(False)
            if s == "-Infinity": return INF(True)
            try:
                return I(int(s))
            except ValueError:
                return DEC(s)
        if c == '"':
            self.i -= 1
            return S(self.string())
        if c == "B": return BIG(int(self.word("-0123456789")))
        if c == "S": return SYM
        if c == "F": return FUN
        if c == "D": return DATE(int(self.word("-0123456789")))
        if c == "R": return REGEXP
        if c == "[": return ARR(self.list("]", self.val))
        if c == "{":
            def kv():
                k = self.string()
                self.expect(":")
                return (k, self.val())
            return OBJ(self.list("}", kv))
        if c == "M":
            self.expect("[")
            def kv2():
                k = self.val()
                self.expect(":")
                return (k, self.val())
            return MAP(self.list("]", kv2))
        if c == "E":
            self.expect("[")
            return SET(self.list("]", self.val))
        if c == "Y":
            name = self.word("ABCDEFGHIJKLMNOPQRSTUVWXYZabcdefghijklmnopqrstuvwxyz0123456789")
            self.expect("[")
            return TYPED(name, [int(x) for x in self.list("]", lambda: self.word("-0123456789"))])
        raise ValueError("canon: bad char %r at %d in %r" % (c, self.i - 1, self.t[:200]))

    def err(self):
        c = self.t[self.i]
        self.i += 1
        self.expect("(")
        self.expect("[")
        path = self.list("]", self.string)
        self.expect(";")
        if c == "e":
            msg = self.string()
            self.expect(";")
            v = self.val()
            self.expect(")")
            return ("e", path, msg, v)
        v = self.val()
        self.expect(";")
        self.expect("[")
        inner = self.list("]", self.err)
        self.expect(")")
        return ("U", path, v, inner)


def parse_canon_val(t):
    p = _P(t)
    v = p.val()
    if p.i != len(t):
        raise ValueError("canon: trailing input in %r" % t[:200])
    return v


def parse_canon_errs(t):
    """'[e(..),U(..)]' -> list of error trees"""
    p = _P(t)
    p.expect("[")
    out = p.list("]", p.err)
    if p.i != len(t):
        raise ValueError("canon: trailing input in %r" % t[:200])
    return out


def err_coq(e):
    if e[0] == "e":
        return "(ERegular %s %s %s)" % (coq_str(e[2]), coq_list(coq_str(s) for s in e[1]), val_coq(e[3]))
    return "(EUnion %s %s %s)" % (coq_list(coq_str(s) for s in e[1]), val_coq(e[2]), coq_list(err_coq(x) for x in e[3]))
