"""Common pieces of the checks that run validator trees in Node and in the Coq model."""
import collections
import glob
import json
import os

from . import common, gen
from .vals import *


def load_corpus(prop):
    """Minimised past disagreements and hand-written witnesses: /verif/corpus/<prop>/*.json (python-literal trees)."""
    out = []
    for p in sorted(glob.glob(os.path.join(common.VERIF, "corpus", prop, "*.py"))):
        d = eval(open(p).read(), {"__builtins__": {}}, {"None": None, "True": True, "False": False})
        d["source"] = os.path.basename(p)
        out.append(d)
    return out


HOSTILE_TYPE_NAMES = ["toString", "constructor", "__proto__", "valueOf", "hasOwnProperty", "A$$B", "$&x", "T$1"]


def map_rt(f, r):
    t = r[0]
    if t == "Tuple": r2 = (t, [map_rt(f, x) for x in r[1]], None if r[2] is None else map_rt(f, r[2]))
    elif t in ("AllOf", "AnyOf"): r2 = (t, [map_rt(f, x) for x in r[1]])
    elif t in ("Array", "Set", "Optional"): r2 = (t, map_rt(f, r[1]))
    elif t == "Map": r2 = (t, map_rt(f, r[1]), map_rt(f, r[2]))
    elif t == "Disc":
        r2 = (t, [map_rt(f, x) for x in r[1]], r[2], [(k, map_rt(f, x)) for k, x in r[3]], [(k, map_rt(f, x)) for k, x in r[4]])
    elif t == "Object": r2 = (t, [(k, map_rt(f, x)) for k, x in r[1]], [(map_rt(f, a), map_rt(f, b)) for a, b in r[2]])
    elif t == "Meta": r2 = (t, r[1], map_rt(f, r[2]))
    else: r2 = r
    return f(r2)


def hostile_names(r, env, rts):
    """Rename some named types to names that collide with Object.prototype members or contain '$' (legal TypeScript identifiers)."""
    used = set()
    def note(x):
        if x[0] == "Ref": used.add(x[1])
        return x
    for x in rts: map_rt(note, x)
    names = sorted([k for k, _ in env], key=lambda k: k not in used)      # the names the validators refer to come first
    free = [h for h in HOSTILE_TYPE_NAMES if h not in names]            # a second renaming must not produce a duplicate name
    picks = r.sample(free, min(len(free), len(names)))
    mapping = {n: (picks[i] if i < len(picks) and r.random() < (0.85 if n in used else 0.4) else n) for i, n in enumerate(names)}
    f = lambda x: ("Ref", mapping.get(x[1], x[1])) if x[0] == "Ref" else x
    return [(mapping[k], map_rt(f, b)) for k, b in env], [map_rt(f, x) for x in rts]


def stretched(v, spoil):
    """v with its first non-empty array (at the top, or one or two levels down) stretched to twelve items by repeating its
    elements; with `spoil` the last item is replaced by a value of another kind (a wrong element beyond the tenth position)"""
    done = [False]
    def go(x, depth):
        if done[0] or depth > 2: return x
        if x[0] == "arr" and x[1]:
            done[0] = True
            items = [x[1][i % len(x[1])] for i in range(12)]
            if spoil: items[11] = ("n",) if items[11][0] not in ("n", "u") else ("s", "z")
            return ("arr", items)
        if x[0] == "arr": return x
        if x[0] == "obj": return ("obj", [(k, go(y, depth + 1)) for k, y in x[1]])
        return x
    w = go(v, 0)
    return w if done[0] else None


def gen_cases(seed, n_rts, n_vals, depth=3, strict=False, schemaable=0.0):
    g = gen.Gen(seed, schemaable)
    rn = __import__("random").Random(seed + 77)
    cases = []
    for i in range(n_rts):
        env, rt = g.env_and_rt(depth)
        if env and rn.random() < 0.2:
            env, (rt,) = hostile_names(rn, env, [rt])
        vals = [v for v in g.values_for(rt, env, n_vals, strict=strict) if not gen.has_bad_keys(v)]
        if vals and i % 4 == 1:
            # containers longer than ten items, clean and with a wrong last item (loops that stop early)
            for v in list(vals):
                long = [w for w in (stretched(v, False), stretched(v, True)) if w is not None]
                if long:
                    vals += long
                    break
        if vals:
            cases.append({"env": env, "rt": rt, "vals": vals, "source": "gen"})
    return cases


def gen_forced(seed, n, n_vals, strict=False):
    g = gen.Gen(seed + 99991)
    cases = []
    for env, rt in gen.forced_cases(seed, n):
        vals = [v for v in g.values_for(rt, env, n_vals, strict=strict) if not gen.has_bad_keys(v)]
        if vals:
            cases.append({"env": env, "rt": rt, "vals": vals, "source": "forced"})
    return cases


def histogram(cases):
    h = collections.Counter()
    for c in cases:
        for n in rt_nodes(c["rt"]):
            h[n[0]] += 1
        for _, b in c["env"]:
            for n in rt_nodes(b):
                h[n[0]] += 1
    return dict(h)


def case_text(c, v=None):
    d = {"env": repr(c["env"]), "rt": repr(c["rt"])}
    if v is not None:
        d["value"] = val_canon(v)
    return d
