"""Common pieces of the checks that run validator trees in Node and in the Coq model."""
import collections
import glob
import json
import os

from . import common, gen
from .vals import *


def load_corpus(prop):
    """Minimised past disagreements and hand-written witnesses: /verif/corpus/<prop>/*.json (python-literal trees)."""
    out = []
    for p in sorted(glob.glob(os.path.join(common.VERIF, "corpus", prop, "*.py"))):
        d = eval(open(p).read(), {"__builtins__": {}}, {"None": None, "True": True, "False": False})
        d["source"] = os.path.basename(p)
        out.append(d)
    return out


def gen_cases(seed, n_rts, n_vals, depth=3, strict=False, schemaable=0.0):
    g = gen.Gen(seed, schemaable)
    cases = []
    for i in range(n_rts):
        env, rt = g.env_and_rt(depth)
        vals = [v for v in g.values_for(rt, env, n_vals, strict=strict) if not gen.has_bad_keys(v)]
        if vals:
            cases.append({"env": env, "rt": rt, "vals": vals, "source": "gen"})
    return cases


def gen_forced(seed, n, n_vals, strict=False):
    g = gen.Gen(seed + 99991)
    cases = []
    for env, rt in gen.forced_cases(seed, n):
        vals = [v for v in g.values_for(rt, env, n_vals, strict=strict) if not gen.has_bad_keys(v)]
        if vals:
            cases.append({"env": env, "rt": rt, "vals": vals, "source": "forced"})
    return cases


def histogram(cases):
    h = collections.Counter()
    for c in cases:
        for n in rt_nodes(c["rt"]):
            h[n[0]] += 1
        for _, b in c["env"]:
            for n in rt_nodes(b):
                h[n[0]] += 1
    return dict(h)


def case_text(c, v=None):
    d = {"env": repr(c["env"]), "rt": repr(c["rt"])}
    if v is not None:
        d["value"] = val_canon(v)
    return d
