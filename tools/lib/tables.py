"""Regenerates coq/Model/Generated.v from /repo: constants the models must share with the code."""
import os
import re

REPO = "/repo"
OUT = "/verif/coq/Model/Generated.v"


def read(rel):
    return open(os.path.join(REPO, rel)).read()


def coq_str(s):
    return '"' + s.replace('"', '""') + '"'


def generate():
    out = ["(* GENERATED from /repo by tools/lib/tables.py on every run — do not edit. *)",
           "From Coq Require Import List NArith String.", "Import ListNotations.", "Local Open Scope N_scope.", ""]
    # ---- hash.ts
    h = read("packages/beff-client/src/hash.ts")
    m = re.search(r"SHA256_K\s*=\s*new Uint32Array\(\[(.*?)\]\)", h, re.S)
    ks = re.findall(r"0x[0-9a-fA-F]+", m.group(1)) if m else []
    out.append("Definition K_source : list N := [%s]." % "; ".join(str(int(k, 16)) for k in ks))
    hs = re.findall(r"private h(\d) = (0x[0-9a-fA-F]+);", h)
    hs = [v for _, v in sorted(hs)]
    out.append("Definition H0_source : list N := [%s]." % "; ".join(str(int(k, 16)) for k in hs))
    # framing bytes of the writer
    def byte_of(method):
        mm = re.search(method + r"\([^)]*\): void \{\s*this\.updateByte\(([^)]*)\)", h)
        return mm.group(1).strip() if mm else "?"
    frame = {"tag": byte_of("updateTag"), "string": byte_of("updateString"), "number": byte_of("updateNumber"),
             "boolean": byte_of("updateBoolean"), "null": byte_of("updateNull")}
    def num(x, d):
        return x if re.fullmatch(r"\d+", x) else d
    out.append("Definition byte_tag_source : N := %s." % num(frame["tag"], "255"))
    out.append("Definition byte_string_source : N := %s." % num(frame["string"], "255"))
    out.append("Definition byte_number_source : N := %s." % num(frame["number"], "255"))
    mb = re.search(r"updateByte\(value \? (\d+) : (\d+)\)", h)
    out.append("Definition byte_true_source : N := %s." % (mb.group(1) if mb else "255"))
    out.append("Definition byte_false_source : N := %s." % (mb.group(2) if mb else "255"))
    out.append("Definition byte_null_source : N := %s." % num(frame["null"], "255"))
    seeds = re.findall(r"export const (\w+)Hash = generateHashFromString\(\"([^\"]*)\"\);", h)
    out.append("Local Open Scope string_scope.")
    out.append("Definition hash_seeds_source : list (string * string) := [%s]." %
               "; ".join("(%s, %s)" % (coq_str(a), coq_str(b)) for a, b in seeds))
    mm = re.search(r"const multiplier = (\d+);", h)
    out.append("Definition hash_multiplier_source : N := %s." % (mm.group(1) if mm else "0"))
    # ---- codegen-v2.ts
    c = read("packages/beff-client/src/codegen-v2.ts")
    tags = re.findall(r"updateTag\(\"([^\"]+)\"\)", c)
    seen = []
    for t in tags:
        if t not in seen:
            seen.append(t)
    out.append("Definition hash256_tags_source : list string := [%s]." % "; ".join(coq_str(t) for t in seen))
    mm = re.search(r"MERGEABLE_OBJECT_SCHEMA_KEYS = new Set\(\[(.*?)\]\)", c, re.S)
    keys = re.findall(r"\"([^\"]+)\"", mm.group(1)) if mm else []
    out.append("Definition mergeable_keys_source : list string := [%s]." % "; ".join(coq_str(k) for k in keys))
    mm = re.search(r"\.slice\(0, (\d+)\)", c[c.find("safeParse("):])
    out.append("Definition max_errors_source : N := %s." % (mm.group(1) if mm else "0"))
    # ---- runtype.rs: regex fragments
    r = read("packages/beff-core/src/ast/runtype.rs")
    def frag(name):
        mm = re.search(r"TplLitTypeItem::%s => r?\"(.*?)\"\.to_string\(\)" % name, r)
        return mm.group(1) if mm else "?"
    out.append("Definition regex_string_source : string := %s." % coq_str(frag("String")))
    out.append("Definition regex_number_source : string := %s." % coq_str(frag("Number")))
    out.append("Definition regex_boolean_source : string := %s." % coq_str(frag("Boolean")))
    esc = re.findall(r"\.replace\('(\\?.)', \"", r)
    out.append("Definition regex_escaped_chars_source : list string := [%s]." %
               "; ".join(coq_str(e[-1]) for e in esc))
    ta = re.search(r"pub fn all\(\) -> Vec<TypedArrayKind> \{\s*vec!\[(.*?)\]", r, re.S)
    kinds = re.findall(r"TypedArrayKind::(\w+)", ta.group(1)) if ta else []
    out.append("Definition typed_array_kinds_source : list string := [%s]." % "; ".join(coq_str(k) for k in kinds))
    # ---- subtyping: SubTypeTag codes and the order of SubTypeTag::all()
    st = read("packages/beff-core/src/subtyping/subtype.rs")
    m = re.search(r"pub enum SubTypeTag \{(.*?)\}", st, re.S)
    codes = re.findall(r"(\w+) = 1 << (\d+),", m.group(1)) if m else []
    out.append("Definition subtype_tag_shifts_source : list (string * N) := [%s]." %
               "; ".join("(%s, %s)" % (coq_str(a), b) for a, b in codes))
    m = re.search(r"pub fn all\(\) -> Vec<SubTypeTag> \{.*?vec!\[(.*?)\]", st, re.S)
    order = re.findall(r"SubTypeTag::(\w+)", m.group(1)) if m else []
    out.append("Definition subtype_tag_all_source : list string := [%s]." % "; ".join(coq_str(a) for a in order))
    m = re.search(r"pub const VAL: u32 = (.*?);", st, re.S)
    val = sum(1 << int(x) for x in re.findall(r"1 << (\d+)", m.group(1))) if m else 0
    out.append("Definition val_mask_source : N := %d." % val)
    return "\n".join(out) + "\n"


def regenerate():
    new = generate()
    old = open(OUT).read() if os.path.exists(OUT) else None
    if new != old:
        open(OUT, "w").write(new)
        return True
    return False


if __name__ == "__main__":
    regenerate()
    print(open(OUT).read())
