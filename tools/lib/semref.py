"""Set-theoretic reference for the type fragment of C05/C07 on the compiler IR (JSON syntax of harness ir_json):
membership of finite JSON-like values, exact (declared properties only) or structural (extra properties allowed),
and a bounded enumeration of the exact members of a type over a universe derived from the types at hand."""
import itertools

from .vals import *


class Incomplete(Exception):
    pass


def strip(t):
    while t[0] == "Meta": t = t[2]
    return t


def lit_of(t):
    """the single value of a literal type, or None"""
    t = strip(t)
    if t[0] == "Const":
        c = t[1]
        if isinstance(c, bool): return B(c)
        n = c["n"]
        return I(int(n)) if float(n).is_integer() else DEC(repr(float(n)))
    if t[0] == "Tpl" and len(t[1]) == 1 and t[1][0][0] == "const": return S(t[1][0][1])
    return None


def tpl_match(items, s):
    import re
    def src(i):
        if i[0] == "string": return "(?:.*)"
        if i[0] == "number": return r"(?:\d+(?:\.\d+)?)"
        if i[0] == "boolean": return "(?:true|false)"
        if i[0] == "const": return re.escape(i[1])
        return "(?:" + "|".join(src(x) for x in i[1]) + ")"
    return re.fullmatch("".join(src(i) for i in items), s, flags=re.S) is not None


class Sem:
    def __init__(self, named, runtime=False):
        self.named = dict(named)
        self.runtime = runtime       # beff's runtime conventions: null ~ undefined, an optional property may be nullish

    def member(self, t, v, exact, depth=0):
        if depth > 80: raise Incomplete("deep")
        t = strip(t)
        k = t[0]
        m = lambda t2, v2: self.member(t2, v2, exact, depth + 1)
        if self.runtime and k in ("Null", "Undefined", "Void"): return v in (NUL, U)
        if k == "Null": return v == NUL
        if k in ("Undefined", "Void"): return v == U
        if k == "Boolean": return v[0] == "b"
        if k == "String": return v[0] == "s"
        if k == "Number": return v[0] == "num"
        if k == "Any": return True
        if k == "Never": return False
        if k == "AnyArrayLike": return v[0] == "arr"
        if k == "Const": return v == lit_of(t)
        if k == "Tpl": return v[0] == "s" and tpl_match(t[1], v[1])
        if k == "Array": return v[0] == "arr" and all(m(t[1], x) for x in v[1])
        if k == "Tuple":
            if v[0] != "arr": return False
            xs, pre, rest = v[1], t[1], t[2]
            if len(xs) < len(pre): return False
            if rest is None and len(xs) != len(pre): return False
            return all(m(p, x) for p, x in zip(pre, xs)) and all(m(rest, x) for x in xs[len(pre):])
        if k == "Object":
            if v[0] != "obj": return False
            fields = dict(v[1])
            declared = set()
            for name, (req, pt) in t[1]:
                declared.add(name)
                if name not in fields:
                    if req and not (self.runtime and m(pt, U)): return False
                    continue
                if self.runtime and not req and fields[name] in (NUL, U): continue
                if not m(pt, fields[name]): return False
            idx = t[2]
            for name, val in fields.items():
                if name in declared: continue
                if idx is not None:
                    kt, (req, vt) = idx
                    if self.member(kt, S(name), exact, depth + 1):
                        if not m(vt, val): return False
                        continue
                if exact: return False
            return True
        if k == "Ref":
            if t[1] not in self.named: raise Incomplete("unknown ref")
            return m(self.named[t[1]], v)
        if k == "AnyOf": return any(m(x, v) for x in t[1])
        if k == "AllOf":
            if exact:
                merged = self.merge_objects(t[1])
                if merged is not None: return m(merged, v)
            return all(m(x, v) for x in t[1])
        if k == "StNot": return not m(t[1], v)
        raise Incomplete(k)

    def as_object(self, t, depth=0):
        """the object type a member of an intersection stands for (through references and nested intersections), or None"""
        t = strip(t)
        if depth > 20: return None
        if t[0] == "Object": return t
        if t[0] == "Ref" and t[1] in self.named: return self.as_object(self.named[t[1]], depth + 1)
        if t[0] == "AllOf": return self.merge_objects(t[1], depth + 1)
        return None

    def merge_objects(self, members, depth=0):
        """the object type an intersection of object types denotes: the declared properties of all members"""
        objs = [self.as_object(x, depth) for x in members]
        if any(o is None for o in objs): return None
        names = []
        for o in objs:
            for n, _ in o[1]:
                if n not in names: names.append(n)
        props = []
        for n in names:
            parts, req = [], False
            for o in objs:
                d = dict((a, b) for a, b in o[1])
                if n in d:
                    req = req or d[n][0]; parts.append(d[n][1])
                elif o[2] is not None and self.member(o[2][0], S(n), False):
                    parts.append(o[2][1][1])
            props.append([n, [req, parts[0] if len(parts) == 1 else ["AllOf", parts]]])
        idxs = [o[2] for o in objs if o[2] is not None]
        idx = None
        if len(idxs) == 1: idx = idxs[0]
        elif len(idxs) > 1:
            idx = [idxs[0][0], [all(i[1][0] for i in idxs), ["AllOf", [i[1][1] for i in idxs]]]]
        if idxs and len(idxs) < len(objs):
            # a member without index signature is open there: the intersection keeps the others' signature
            pass
        return ["Object", props, idx]

    # ---- the universe of atoms two types can tell apart
    def universe(self, ts):
        strs, nums, keys = {"zz"}, {7919}, {"k_zz", "k_yy", "k_xx"}
        self.pattern_keys = set()      # names made to match the key patterns of index signatures: tried first as extra keys
        seen = set()
        def go(t):
            t = strip(t)
            k = t[0]
            l = lit_of(t)
            if l is not None:
                if l[0] == "s": strs.add(l[1])
                if l[0] == "num" and l[1] == "int": nums.add(l[2])
                return
            if k == "Tpl":
                # a few strings that may or may not match the pattern
                base = "".join({"string": "s", "number": "1", "boolean": "true"}.get(i[0], i[1] if i[0] == "const" else "") for i in t[1])
                strs.add(base)
                return
            if k in ("Array", "StNot"): go(t[1])
            elif k == "Tuple":
                for x in t[1]: go(x)
                if t[2] is not None: go(t[2])
            elif k == "Object":
                for name, (req, pt) in t[1]:
                    keys.add(name); go(pt)
                if t[2] is not None:
                    go(t[2][0]); go(t[2][1][1])
                    # the names a finite key type admits are keys objects can carry
                    for kn in nodes(t[2][0]):
                        kl = lit_of(kn)
                        if kl is not None and kl[0] == "s": keys.add(kl[1])
                        elif kn[0] == "Tpl":
                            stem = "".join({"string": "", "number": "1", "boolean": "true"}.get(i[0], i[1] if i[0] == "const" else "") for i in kn[1])
                            for cand in (stem, stem + "b", stem + "c", stem + "2", "7"):
                                if cand and tpl_match(kn[1], cand):
                                    keys.add(cand); self.pattern_keys.add(cand)
            elif k in ("AnyOf", "AllOf"):
                for x in t[1]: go(x)
            elif k == "Ref":
                if t[1] in seen or t[1] not in self.named: return
                seen.add(t[1]); go(self.named[t[1]])
        for t in ts: go(t)
        return sorted(strs), sorted(nums), sorted(keys)

    # ---- bounded enumeration of exact members
    def enumerate(self, t, uni, depth, cap):
        """exact members of t built from the universe, nesting <= depth; returns (values, exhaustive)"""
        self.exhaustive = True
        out = self._enum(t, uni, depth, cap)
        seen, res = set(), []
        for v in out:
            c = val_canon(v)
            if c not in seen:
                seen.add(c); res.append(v)
        return res, self.exhaustive

    def _cap(self, xs, cap):
        xs = list(xs)
        if len(xs) > cap:
            self.exhaustive = False
            return xs[:cap]
        return xs

    def _all(self, uni, depth, cap):
        """every value of the universe up to the depth (for Any and negations)"""
        strs, nums, keys = uni
        base = [NUL, B(True), B(False)] + [I(n) for n in nums] + [S(s) for s in strs]
        if depth <= 0:
            self.exhaustive = False
            return base
        inner = self._cap(self._all(uni, depth - 1, cap), 4)
        arrs = [ARR([])] + [ARR([x]) for x in inner]
        objs = [OBJ([])] + [OBJ([(k, x)]) for k in keys[:2] for x in inner[:3]]
        self.exhaustive = False          # arrays and objects of a universe are never exhausted
        return base + arrs + objs

    def _enum(self, t, uni, depth, cap):
        t = strip(t)
        k = t[0]
        strs, nums, keys = uni
        if k == "Null": return [NUL]
        if k in ("Undefined", "Void"): return [U]
        if k == "Boolean": return [B(True), B(False)]
        if k == "String": return [S(s) for s in strs]
        if k == "Number": return [I(n) for n in nums]
        if k == "Never": return []
        if k == "Const": return [lit_of(t)]
        if k == "Tpl": return [S(s) for s in strs if tpl_match(t[1], s)]
        if k == "Any": return self._cap(self._all(uni, depth, cap), cap)
        if k == "AnyArrayLike": return self._enum(["Array", ["Any"]], uni, depth, cap)
        if k == "Ref":
            if t[1] not in self.named: raise Incomplete("unknown ref")
            if depth <= 0:
                self.exhaustive = False
                return []
            return self._enum(self.named[t[1]], uni, depth - 1, cap)
        if k == "AnyOf":
            out = []
            for x in t[1]: out += self._enum(x, uni, depth, cap)
            return self._cap(out, cap * 2)
        if k == "AllOf":
            merged = self.merge_objects(t[1])
            if merged is not None: return self._enum(merged, uni, depth, cap)
            first = self._enum(t[1][0], uni, depth, cap)
            return [v for v in first if all(self.member(x, v, True) for x in t[1][1:])]
        if k == "StNot":
            return [v for v in self._all(uni, depth, cap) if not self.member(t[1], v, True)]
        if depth <= 0:
            self.exhaustive = False
            return []
        if k == "Array":
            el = self._cap(self._enum(t[1], uni, depth - 1, cap), 5)
            out = [ARR([])] + [ARR([x]) for x in el] + [ARR([x, y]) for x in el[:3] for y in el[:3]]
            # three and four elements (an array may have to escape several tuple alternatives at different positions)
            out += [ARR([x, y, z]) for x in el[:3] for y in el[:3] for z in el[:3]]
            out += [ARR([x, y, y, x]) for x in el[:2] for y in el[:2]] + [ARR([x, y, x, y]) for x in el[:2] for y in el[:2] if x != y]
            if el: self.exhaustive = False      # longer arrays exist
            return self._cap(out, cap)
        if k == "Tuple":
            cols = [self._cap(self._enum(p, uni, depth - 1, cap), 5) for p in t[1]]
            out = [ARR(list(c)) for c in itertools.islice(itertools.product(*cols), cap * 4)]
            if t[2] is not None:
                rest = self._cap(self._enum(t[2], uni, depth - 1, cap), 4)
                base_ = out[:cap]
                out += [ARR(v[1] + [x]) for v in base_ for x in rest]
                out += [ARR(v[1] + [x, y]) for v in base_[:6] for x in rest for y in rest]     # two rest elements
                out += [ARR(v[1] + [x] * k) for v in base_[:3] for x in rest[:2] for k in (3, 4)]
                if rest: self.exhaustive = False
            return self._cap(out, cap * 2)
        if k == "Object":
            cols = []
            for name, (req, pt) in t[1]:
                vals = [(name, x) for x in self._cap(self._enum(pt, uni, depth - 1, cap), 5)]
                if not req: vals = [None] + vals
                cols.append(vals)
            out = []
            for combo in itertools.islice(itertools.product(*cols), cap * 6):
                out.append(OBJ([c for c in combo if c is not None]))
            if t[2] is not None:
                kt, (req, vt) = t[2]
                declared = {n for n, _ in t[1]}
                extra_keys = [x for x in sorted(keys, key=lambda x: (x not in getattr(self, 'pattern_keys', ()), not x.startswith('k_'), x)) if x not in declared and self.member(kt, S(x), True)]
                vals = self._cap(self._enum(vt, uni, depth - 1, cap), 4)
                more = [OBJ(o[1] + [(ek, x)]) for o in out[:cap] for ek in extra_keys[:2] for x in vals]
                # two (and three) extra keys with different values: an object can escape several alternatives through different keys
                if len(extra_keys) >= 2:
                    more += [OBJ(o[1] + [(extra_keys[0], x), (extra_keys[1], y)]) for o in out[:6] for x in vals for y in vals if x != y]
                if len(extra_keys) >= 3 and len(vals) >= 3:
                    more += [OBJ(o[1] + [(extra_keys[0], vals[0]), (extra_keys[1], vals[1]), (extra_keys[2], vals[2])]) for o in out[:3]]
                if more: self.exhaustive = False       # objects with more extra keys exist
                out += more
            return self._cap(out, cap * 3)
        raise Incomplete(k)


def nodes(t):
    t0 = strip(t)
    yield t0
    k = t0[0]
    if k in ("Array", "StNot"): yield from nodes(t0[1])
    elif k == "Tuple":
        for x in t0[1]: yield from nodes(x)
        if t0[2] is not None: yield from nodes(t0[2])
    elif k == "Object":
        for _, (r, pt) in t0[1]: yield from nodes(pt)
        if t0[2] is not None:
            yield from nodes(t0[2][0]); yield from nodes(t0[2][1][1])
    elif k in ("AnyOf", "AllOf"):
        for x in t0[1]: yield from nodes(x)
