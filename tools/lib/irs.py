"""The compiler IR as JSON (harness/compile ir_json) -> Coq terms of Model/Ir.v."""
from .vals import coq_str, coq_list, tpl_item_coq, num_coq, I, DEC


def num_of_serde(n):
    if isinstance(n, bool): raise ValueError(n)
    if isinstance(n, int): return I(n)
    if float(n).is_integer() and abs(n) < 2 ** 53: return I(int(n))
    return DEC(repr(float(n)))


def opt_coq(o):
    return "(%s, %s)" % ("true" if o[0] else "false", ir_coq(o[1]))


def ir_coq(j):
    t = j[0]
    simple = {"Null": "INull", "Undefined": "IUndefined", "Void": "IVoid", "Boolean": "IBoolean", "String": "IString", "Number": "INumber",
              "Any": "IAny", "AnyArrayLike": "IAnyArrayLike", "Never": "INever", "Function": "IFunction", "Date": "IDate", "BigInt": "IBigInt"}
    if t in simple: return simple[t]
    if t == "StringFmt": return "(IStringFmt %s %s)" % (coq_str(j[1]), coq_list(coq_str(x) for x in j[2]))
    if t == "NumberFmt": return "(INumberFmt %s %s)" % (coq_str(j[1]), coq_list(coq_str(x) for x in j[2]))
    if t == "Tpl": return "(ITpl %s)" % coq_list(tpl_item_coq(tuple_item(i)) for i in j[1])
    if t == "Object":
        vs = coq_list("(%s, %s)" % (coq_str(k), opt_coq(o)) for k, o in j[1])
        idx = "None" if j[2] is None else "(Some (%s, %s))" % (ir_coq(j[2][0]), opt_coq(j[2][1]))
        return "(IObject %s %s)" % (vs, idx)
    if t == "Array": return "(IArray %s)" % ir_coq(j[1])
    if t == "Tuple": return "(ITuple %s %s)" % (coq_list(ir_coq(x) for x in j[1]), "None" if j[2] is None else "(Some %s)" % ir_coq(j[2]))
    if t == "Ref": return "(IRef %s)" % coq_str(j[1])
    if t == "AnyOf": return "(IAnyOf %s)" % coq_list(ir_coq(x) for x in j[1])
    if t == "AllOf": return "(IAllOf %s)" % coq_list(ir_coq(x) for x in j[1])
    if t == "Const":
        c = j[1]
        if isinstance(c, bool): return "(IConst (ICBool %s))" % ("true" if c else "false")
        return "(IConst (ICNum %s))" % num_coq(num_of_serde(c["n"]))
    if t == "StNot": return "(IStNot %s)" % ir_coq(j[1])
    if t == "TypedArray": return "(ITypedArray %s)" % coq_str(j[1])
    if t == "Map": return "(IMap %s %s)" % (ir_coq(j[1]), ir_coq(j[2]))
    if t == "Set": return "(ISet %s)" % ir_coq(j[1])
    if t == "Meta": return "(IMetaIR %s %s)" % (coq_str(j[1]), ir_coq(j[2]))
    raise ValueError(j)


def tuple_item(i):
    if i[0] == "oneof": return ("oneof", [tuple_item(x) for x in i[1]])
    return tuple(i)


def ienv_coq(named):
    return coq_list("(%s, %s)" % (coq_str(k), ir_coq(v)) for k, v in named)


def ir_nodes(j):
    yield j
    t = j[0]
    if t == "Object":
        for _, o in j[1]: yield from ir_nodes(o[1])
        if j[2] is not None:
            yield from ir_nodes(j[2][0]); yield from ir_nodes(j[2][1][1])
    elif t in ("Array", "Set", "StNot"): yield from ir_nodes(j[1])
    elif t == "Tuple":
        for x in j[1]: yield from ir_nodes(x)
        if j[2] is not None: yield from ir_nodes(j[2])
    elif t in ("AnyOf", "AllOf"):
        for x in j[1]: yield from ir_nodes(x)
    elif t == "Map":
        yield from ir_nodes(j[1]); yield from ir_nodes(j[2])
    elif t == "Meta": yield from ir_nodes(j[2])
