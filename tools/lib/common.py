"""Shared machinery of the checks: builds, the Coq and Node runners, evidence, verdicts."""
import concurrent.futures as cf
import glob
import hashlib
import json
import os
import re
import shutil
import subprocess
import sys
import time

VERIF = "/verif"
REPO = "/repo"
WORK = os.path.join(VERIF, ".work")
COQ = os.path.join(VERIF, "coq")
TARGET = os.path.join(WORK, "target")
CLIENT = os.path.join(WORK, "client")
NCPU = 16

ENV = dict(os.environ, CARGO_NET_OFFLINE="true", CARGO_TARGET_DIR=TARGET)


def log(*a):
    print(*a, file=sys.stderr, flush=True)


def sh(cmd, timeout=1200, cwd=None, env=None, input=None, check=False):
    t0 = time.time()
    try:
        p = subprocess.run(cmd, shell=isinstance(cmd, str), cwd=cwd, env=env or ENV, input=input,
                           stdout=subprocess.PIPE, stderr=subprocess.STDOUT, timeout=timeout, text=True)
        rc, out = p.returncode, p.stdout
    except subprocess.TimeoutExpired as e:
        rc, out = 124, (e.stdout.decode() if isinstance(e.stdout, bytes) else (e.stdout or "")) + "\nTIMEOUT"
    if check and rc != 0:
        raise RuntimeError("command failed (%s): %s\n%s" % (rc, cmd, out[-4000:]))
    return rc, out, time.time() - t0


def file_hash(paths):
    h = hashlib.sha256()
    for p in sorted(paths):
        h.update(p.encode())
        try:
            with open(p, "rb") as f:
                h.update(f.read())
        except OSError:
            h.update(b"<missing>")
    return h.hexdigest()


# ---------------------------------------------------------------- Coq development
FORBIDDEN = re.compile(
    r"\b(Admitted|admit|Axiom|Axioms|Parameter|Parameters|Conjecture|Conjectures|Abort All|"
    r"Unset\s+Guard\s+Checking|Unset\s+Positivity\s+Checking|Unset\s+Universe\s+Checking|bypass_check|"
    r"Admit\s+Obligations|type-in-type|impredicative-set)\b")


def coq_sources():
    out = []
    for d in ("Model", "Proofs", "Props"):
        out += sorted(glob.glob(os.path.join(COQ, d, "*.v")))
    return out


def strip_coq_comments(text):
    out, depth, i = [], 0, 0
    while i < len(text):
        if text.startswith("(*", i):
            depth += 1
            i += 2
        elif text.startswith("*)", i) and depth > 0:
            depth -= 1
            i += 2
        else:
            if depth == 0:
                out.append(text[i])
            i += 1
    return "".join(out)


def audit_sources():
    """Forbidden keywords anywhere in the development (comments and strings stripped).
    Also: Variable/Hypothesis outside a Section."""
    problems = []
    for p in coq_sources():
        text = strip_coq_comments(open(p).read())
        text_nostr = re.sub(r'"(?:[^"]|"")*"', '""', text)
        for m in FORBIDDEN.finditer(text_nostr):
            problems.append("%s: forbidden keyword %s" % (os.path.relpath(p, COQ), m.group(0)))
        depth = 0
        for line in text_nostr.splitlines():
            s = line.strip()
            if re.match(r"(Section|Module)\s+\w+", s) and not re.match(r"Module\s+(Import|Export)", s):
                depth += 1
            elif re.match(r"End\s+\w+\s*\.", s):
                depth = max(0, depth - 1)
            elif re.match(r"(Variable|Variables|Hypothesis|Hypotheses|Context)\b", s) and depth == 0:
                problems.append("%s: %s outside a section" % (os.path.relpath(p, COQ), s.split()[0]))
    return problems


def write_coqproject():
    lines = ["-Q . Beff",
             "-arg -w -arg -notation-overridden,-deprecated-hint-without-locality,-deprecated-instance-without-locality,-ambiguous-paths"]
    lines += [os.path.relpath(p, COQ) for p in coq_sources()]
    new = "\n".join(lines) + "\n"
    path = os.path.join(COQ, "_CoqProject")
    old = open(path).read() if os.path.exists(path) else ""
    if old != new:
        open(path, "w").write(new)
        return True
    return not os.path.exists(os.path.join(COQ, "Makefile"))


def coq_build(targets=None, timeout=1500):
    """Full .vo build of the requested targets (default: everything)."""
    from . import tables
    tables.regenerate()
    if write_coqproject():
        sh("coq_makefile -f _CoqProject -o Makefile", cwd=COQ, check=True)
    tgt = " ".join(targets) if targets else ""
    rc, out, dt = sh("timeout %d make -j%d %s" % (timeout, NCPU, tgt), cwd=COQ, timeout=timeout + 30)
    return rc, out, dt


def print_assumptions(module, theorems, timeout=300):
    """Ask coqc for the assumptions of every listed theorem of Beff.<module>."""
    d = os.path.join(WORK, "audit")
    os.makedirs(d, exist_ok=True)
    name = "Audit_" + module.replace(".", "_")
    path = os.path.join(d, name + ".v")
    with open(path, "w") as f:
        f.write("From Beff Require Import %s.\n" % module)
        for t in theorems:
            f.write('Goal True. idtac "@@THM %s". exact I. Qed.\nPrint Assumptions %s.\n' % (t, t))
    rc, out, _ = sh("timeout %d coqc -noglob -Q %s Beff -Q %s Audit %s" % (timeout, COQ, d, path), cwd=d,
                    timeout=timeout + 10)
    res = {}
    if rc != 0:
        return rc, out, res
    parts = out.split("@@THM ")
    for part in parts[1:]:
        nm, _, rest = part.partition("\n")
        res[nm.strip()] = " ".join(rest.split())
    return rc, out, res


# axioms of the standard library that a theorem may depend on (each is named in the trusted base when it occurs)
ALLOWED_AXIOMS = {
    "functional_extensionality_dep", "proof_irrelevance", "classic", "JMeq_eq", "eq_rect_eq",
    "propositional_extensionality", "constructive_indefinite_description", "Eqdep.Eq_rect_eq.eq_rect_eq",
}


def assumptions_ok(text):
    if text.startswith("Closed under the global context"):
        return True, []
    names = re.findall(r"([A-Za-z_][\w.']*)\s*:", text)
    bad = [n for n in names if n.split(".")[-1] not in ALLOWED_AXIOMS and n not in ALLOWED_AXIOMS]
    return not bad, names


_coq_case_counter = [0]


def run_coq_cases(imports, exprs, tag="cases", shard=120, timeout=900):
    """Evaluate string-valued Gallina expressions with vm_compute; returns the list of strings.
    One `Eval vm_compute` per expression, sharded over parallel coqc processes."""
    if not exprs:
        return []
    d = os.path.join(WORK, "cases", tag)
    shutil.rmtree(d, ignore_errors=True)
    os.makedirs(d)
    shards = [exprs[i:i + shard] for i in range(0, len(exprs), shard)]
    paths = []
    for si, sh_exprs in enumerate(shards):
        p = os.path.join(d, "c%04d.v" % si)
        with open(p, "w") as f:
            f.write(imports + "\n")
            for e in sh_exprs:
                f.write("Eval vm_compute in (%s).\n" % e)
        paths.append(p)

    def one(p):
        rc, out, _ = sh("timeout %d coqc -noglob -Q %s Beff -Q %s Cases %s" % (timeout, COQ, d, p), cwd=d,
                        timeout=timeout + 10)
        if rc != 0:
            raise RuntimeError("coqc failed on %s:\n%s" % (p, out[-3000:]))
        return re.findall(r'=\s*"((?:[^"]|"")*)"(?:%string)?\s*:\s*string', out, re.S)

    results = []
    with cf.ThreadPoolExecutor(NCPU) as ex:
        for p, got, want in zip(paths, ex.map(one, paths), shards):
            if len(got) != len(want):
                raise RuntimeError("coq output of %s: %d results for %d cases" % (p, len(got), len(want)))
            results += [g.replace('""', '"') for g in got]
    return results


# ---------------------------------------------------------------- harness builds
def ensure_harness(timeout=1500):
    hd = os.path.join(VERIF, "harness")
    lock = os.path.join(hd, "Cargo.lock")
    if not os.path.exists(lock):
        shutil.copy(os.path.join(REPO, "Cargo.lock"), lock)
    # cargo decides freshness by mtime; `git apply` / `git checkout` within one timestamp granule of a build can leave a
    # stale binary.  Freshness is decided here by content: when the sources differ from those of the last build, touch them.
    srcs = []
    for sub in ("packages/beff-core", "packages/beff-wasm"):
        for root, _, files in os.walk(os.path.join(REPO, sub)):
            if "/target" in root or "/node_modules" in root: continue
            srcs += [os.path.join(root, f) for f in files if f.endswith((".rs", ".toml"))]
    srcs.sort()
    key = file_hash(srcs + [os.path.join(REPO, "Cargo.lock")])
    stamp = os.path.join(TARGET, ".src_hash")
    old = open(stamp).read() if os.path.exists(stamp) else ""
    if old != key:
        now = time.time()
        for f in srcs:
            if f.endswith(".rs"): os.utime(f, (now, now))
    rc, out, dt = sh("timeout %d cargo build --release --offline 2>&1" % timeout, cwd=hd, timeout=timeout + 30)
    if rc != 0:
        raise RuntimeError("harness build failed:\n" + out[-6000:])
    os.makedirs(TARGET, exist_ok=True)
    with open(stamp, "w") as f:
        f.write(key)
    return dt


CLIENT_FILES = ["index", "codegen-v2", "hash", "err", "b", "openapi-pp", "types", "json-schema"]


def ensure_client():
    """Type-strip packages/beff-client/src into a loadable ESM package (cached by content hash)."""
    src = [os.path.join(REPO, "packages/beff-client/src", f + ".ts") for f in CLIENT_FILES]
    tool = os.path.join(TARGET, "release", "tsstrip")
    key = file_hash(src + [tool])
    stamp = os.path.join(CLIENT, ".stamp")
    if os.path.exists(stamp) and open(stamp).read() == key:
        return CLIENT
    shutil.rmtree(CLIENT, ignore_errors=True)
    dist = os.path.join(CLIENT, "node_modules/@beff/client/dist")
    os.makedirs(dist)
    os.makedirs(os.path.join(CLIENT, "node_modules/zod"))
    for f, p in zip(CLIENT_FILES, src):
        rc, out, _ = sh([tool, p], env=ENV)
        if rc != 0:
            raise RuntimeError("tsstrip failed on %s:\n%s" % (p, out[-3000:]))
        open(os.path.join(dist, f + ".js"), "w").write(out)
    json.dump({"name": "@beff/client", "type": "module",
               "exports": {".": "./dist/index.js", "./codegen-v2": "./dist/codegen-v2.js",
                           "./hash": "./dist/hash.js", "./err": "./dist/err.js"}},
              open(os.path.join(CLIENT, "node_modules/@beff/client/package.json"), "w"))
    json.dump({"name": "zod", "type": "module", "exports": {".": "./index.js"}},
              open(os.path.join(CLIENT, "node_modules/zod/package.json"), "w"))
    open(os.path.join(CLIENT, "node_modules/zod/index.js"), "w").write(
        "export const z = { custom: (f, m) => ({ _custom: f, _msg: m }) };\n")
    open(stamp, "w").write(key)
    return CLIENT


def run_driver(jobs, script="driver.mjs", timeout=600, nproc=NCPU):
    """Run jobs through the Node driver (parallel processes); returns results in job order."""
    if not jobs:
        return []
    client = ensure_client()
    chunks = [jobs[i::nproc] for i in range(nproc) if jobs[i::nproc]]

    def one(chunk):
        inp = "\n".join(json.dumps(j) for j in chunk) + "\n"
        rc, out, _ = sh(["node", "--stack-size=4000", os.path.join(VERIF, "harness/js", script), client],
                        input=inp, timeout=timeout)
        if rc != 0:
            raise RuntimeError("driver failed (%s):\n%s" % (rc, out[-3000:]))
        res = {}
        for line in out.splitlines():
            if line.startswith("{"):
                r = json.loads(line)
                res[r["id"]] = r
        return res

    merged = {}
    with cf.ThreadPoolExecutor(nproc) as ex:
        for r in ex.map(one, chunks):
            merged.update(r)
    out = []
    for j in jobs:
        r = merged.get(j["id"])
        if r is None:
            raise RuntimeError("driver returned nothing for job %s" % j["id"])
        if "error" in r:
            raise RuntimeError("driver error for job %s: %s" % (j["id"], r["error"]))
        out.append(r["out"])
    return out


def run_engine(jobs, timeout=600, nproc=NCPU, exe_name="engine"):
    """Run jobs through a Rust line-protocol harness (one JSON per line); returns results in job order."""
    if not jobs:
        return []
    exe = os.path.join(TARGET, "release", exe_name)
    chunks = [jobs[i::nproc] for i in range(nproc) if jobs[i::nproc]]

    def one(chunk):
        inp = "\n".join(json.dumps(j) for j in chunk) + "\n"
        rc, out, _ = sh([exe], input=inp, timeout=timeout)
        res = {}
        for line in out.splitlines():
            if line.startswith("{"):
                r = json.loads(line)
                res[r["id"]] = r
        return res

    merged = {}
    with cf.ThreadPoolExecutor(nproc) as ex:
        for r in ex.map(one, chunks):
            merged.update(r)
    out = []
    for j in jobs:
        r = merged.get(j["id"])
        if r is None:
            out.append({"crash": "no result (process aborted?)"})
        else:
            out.append(r)
    return out


def run_session(jobs, timeout=900, nproc=NCPU):
    """Histories through H-session (beff_wasm with feature beff_verif)."""
    return run_engine(jobs, timeout=timeout, nproc=nproc, exe_name="session")


def run_compile(jobs, timeout=20, nproc=NCPU):
    """One compiler process per project (aborts and hangs are outcomes, not crashes of the check)."""
    exe = os.path.join(TARGET, "release", "compile")

    def one(job):
        t0 = time.time()
        try:
            p = subprocess.run([exe], input=json.dumps(job), stdout=subprocess.PIPE, stderr=subprocess.PIPE,
                               timeout=timeout, text=True, env=ENV)
        except subprocess.TimeoutExpired:
            return {"outcome": "timeout", "wall_s": timeout}
        panic = [l[9:] for l in p.stderr.splitlines() if l.startswith("@@PANIC ")]
        if p.returncode != 0 and not p.stdout.strip():
            return {"outcome": "abort", "returncode": p.returncode, "stderr": p.stderr[-400:], "panic": panic}
        try:
            d = json.loads(p.stdout.strip().splitlines()[-1])
        except Exception:
            return {"outcome": "abort", "returncode": p.returncode, "stderr": p.stderr[-400:], "panic": panic}
        d["panic"] = panic
        d["wall_s"] = round(time.time() - t0, 2)
        return d

    with cf.ThreadPoolExecutor(nproc) as ex:
        return list(ex.map(one, jobs))


_GLUE = [None]


def glue_text():
    if _GLUE[0] is None:
        _GLUE[0] = open(os.path.join(REPO, "packages/beff-wasm/bundled-code/codegen-v2.js")).read()
    return _GLUE[0]


def run_modules(jobs, timeout=600, nproc=NCPU):
    """Load emitted modules in Node against the stripped client and run operations on the built parsers."""
    if not jobs:
        return []
    client = ensure_client()
    glue = glue_text()
    chunks = [jobs[i::nproc] for i in range(nproc) if jobs[i::nproc]]

    def one(chunk):
        inp = "\n".join(json.dumps(dict(j, glue=glue)) for j in chunk) + "\n"
        rc, out, _ = sh(["node", "--stack-size=4000", os.path.join(VERIF, "harness/js/modrun.mjs"), client],
                        input=inp, timeout=timeout)
        res = {}
        for line in out.splitlines():
            if line.startswith("{"):
                r = json.loads(line)
                res[r["id"]] = r
        if rc != 0 and not res:
            raise RuntimeError("modrun failed (%s):\n%s" % (rc, out[-3000:]))
        return res

    merged = {}
    with cf.ThreadPoolExecutor(nproc) as ex:
        for r in ex.map(one, chunks):
            merged.update(r)
    return [merged.get(j["id"], {"id": j["id"], "error": "no result"}) for j in jobs]


# ---------------------------------------------------------------- known findings
def load_known(prop):
    path = os.path.join(VERIF, "known-findings.jsonl")
    out = []
    if os.path.exists(path):
        for line in open(path):
            line = line.strip()
            if line and not line.startswith("#"):
                d = json.loads(line)
                if d["property"] == prop:
                    out.append(d)
    return out


# ---------------------------------------------------------------- a check run
class Run:
    def __init__(self, prop, tier, seed, rerun=False):
        self.prop, self.tier, self.seed = prop, tier, seed
        self.rerun = rerun            # a re-run for `vp.py replay`: separate replay directory, no evidence file
        self.t0 = time.time()
        self.work = os.path.join(WORK, prop)
        os.makedirs(self.work, exist_ok=True)
        self.violations = []      # (replay_path, suffix)
        self.known_lines = []
        self.coverage = {"obligations": 0, "discharged": 0, "checker_cmd": "", "trusted_base": [],
                         "evaluations": 0, "distinct_nontrivial": 0, "samples": [], "correspondence": {},
                         "spec_checks": {}, "assumptions_printed": {}, "known_findings_reproduced": []}
        self.assumptions = []
        self.notes = []

    # --- proof obligations
    def prove(self, module, theorems, targets):
        """Build the Coq targets, audit, Print Assumptions for the property theorems."""
        self.coverage["checker_cmd"] = "cd /verif/coq && make -j16 %s  (coqc 8.16.1, full .vo build); " \
            "coqc Print Assumptions on %s" % (" ".join(targets), module)
        self.coverage["obligations"] += len(theorems)
        rc, out, dt = coq_build(list(targets) + ["Model/Cases.vo", "Model/RuntimeSpec.vo", "Model/StrictSpec.vo"])
        self.coverage["coq_build_s"] = round(dt, 1)
        problems = audit_sources()
        if rc != 0:
            m = re.search(r'File "([^"]+)", line (\d+)[^\n]*\n(?:.*\n)*?Error:(.*?)(?:\n\n|\Z)', out, re.S)
            what = ("%s line %s: %s" % (m.group(1), m.group(2), " ".join(m.group(3).split())[:400])) if m \
                else out[-1500:]
            self.proof_broken = "Coq build failed: " + what
            return False
        if problems:
            self.proof_broken = "audit: " + "; ".join(problems)
            return False
        rc, out, res = print_assumptions(module, theorems)
        if rc != 0:
            self.proof_broken = "Print Assumptions failed (a property theorem is missing?): " + out[-800:]
            return False
        for t in theorems:
            txt = res.get(t, "<missing>")
            ok, names = assumptions_ok(txt)
            self.coverage["assumptions_printed"][t] = txt[:300]
            if not ok:
                self.proof_broken = "theorem %s depends on non-allow-listed assumptions: %s" % (t, txt[:300])
                return False
            self.coverage["discharged"] += 1
        self.proof_broken = None
        return True

    # --- verdicts
    def replay_path(self, name):
        d = os.path.join(self.work, "replay-rerun" if self.rerun else "replay")
        os.makedirs(d, exist_ok=True)
        return os.path.join(d, name + ".json")

    def violation(self, name, payload, no_input=False):
        p = self.replay_path(name)
        payload = dict(payload, property=self.prop, seed=self.seed, tier=self.tier)
        json.dump(payload, open(p, "w"), indent=1, default=str)
        self.violations.append((p, " no-failing-input-found" if no_input else ""))

    def known(self, text):
        self.known_lines.append(text)

    def start_clean(self):
        """stale replay files of an earlier run must not be mistaken for results of this one"""
        d = os.path.join(self.work, "replay-rerun" if self.rerun else "replay")
        shutil.rmtree(d, ignore_errors=True)

    def finish(self, level="proof"):
        cov = self.coverage
        ev = {"property_id": self.prop, "tier": self.tier, "seed": self.seed, "level": level,
              "coverage": cov, "assumptions": self.assumptions, "wall_s": round(time.time() - self.t0, 1),
              "violations": len(self.violations), "notes": self.notes}
        if not self.rerun:
            os.makedirs(os.path.join(VERIF, "evidence"), exist_ok=True)
            json.dump(ev, open(os.path.join(VERIF, "evidence", self.prop + ".json"), "w"), indent=1, default=str)
        for k in self.known_lines:
            print("KNOWN-FINDING: property=%s %s" % (self.prop, k))
        seen = set()
        for p, suffix in self.violations[:20]:
            if p in seen:
                continue
            seen.add(p)
            print("VIOLATION property=%s replay=%s%s" % (self.prop, p, suffix))
        sys.stdout.flush()
        return 1 if self.violations else 0
