"""Generators: validator trees (with named, recursive environments) and type-directed values."""
import random
from .vals import *

KEYS = ["a", "b", "c", "d", "kind", "type"]
HOSTILE_KEYS = ["toString", "constructor", "valueOf", "hasOwnProperty"]
STRS = ["", "a", "b", "ab", "abc", "abcd", "x1", "true", "12", "1.5", "toString", "constructor", "__proto__"]
FORMATS_S = ["nonempty", "short"]
FORMATS_N = ["nonneg", "even"]


class Gen:
    def __init__(self, seed, schemaable=0.0):
        self.r = random.Random(seed)
        self.schemaable = schemaable      # probability of avoiding leaves JSON Schema cannot express


    # ------------------------------------------------------------ primitives
    def num(self):
        r = self.r
        k = r.random()
        if k < 0.6: return I(r.choice([0, 1, 2, 3, -1, 7, 10, 42, -5, 100]))
        if k < 0.75: return DEC(r.choice(["1.5", "0.25", "-2.5", "3.75"]))
        if k < 0.82: return NAN
        if k < 0.88: return NEGZ
        if k < 0.92: return INF(r.random() < 0.5)
        return I(r.randrange(-1000, 1000))

    def string(self):
        return S(self.r.choice(STRS))

    def key(self, hostile=0.1):
        if self.r.random() < hostile:
            return self.r.choice(HOSTILE_KEYS)
        return self.r.choice(KEYS)

    def cst(self):
        r = self.r
        k = r.random()
        if k < 0.35: return r.choice(["a", "b", "c", "ab", "x", "toString", "constructor", "__proto__", "", "1", "0", "true", "null"])
        if k < 0.6: return I(r.choice([0, 1, 2, 3, -1]))
        if k < 0.68: return r.choice([NAN, NEGZ, DEC("1.5")])
        if k < 0.85: return r.random() < 0.5
        return None

    def any_value(self, depth=2):
        r = self.r
        k = r.random()
        if depth <= 0 or k < 0.55:
            return r.choice([U, NUL, B(True), B(False), self.num(), self.string(), self.string(), BIG(r.choice([0, 5, -3])),
                             SYM, FUN, DATE(r.choice([0, 1000, 86400000])), REGEXP,
                             TYPED(r.choice(TYPED_KINDS[:9]), [r.randrange(0, 5) for _ in range(r.randrange(0, 3))])])
        if k < 0.7:
            return ARR([self.any_value(depth - 1) for _ in range(r.randrange(0, 4))])
        if k < 0.9:
            return self.obj([(self.key(0.2), self.any_value(depth - 1)) for _ in range(r.randrange(0, 4))])
        if k < 0.95:
            return MAP([(self.any_value(0), self.any_value(depth - 1)) for _ in range(r.randrange(0, 3))])
        return SET([self.any_value(depth - 1) for _ in range(r.randrange(0, 3))])

    def obj(self, kvs):
        seen, out = set(), []
        for k, v in kvs:
            if k not in seen:
                seen.add(k)
                out.append((k, v))
        return OBJ(out)

    # ------------------------------------------------------------ validator trees
    def tpl_items(self):
        r = self.r
        n = r.randrange(1, 4)
        out = []
        for _ in range(n):
            k = r.random()
            if k < 0.4: out.append(("const", r.choice(["a", "ab", "x-", "id_", ".", "a.b", ""])))
            elif k < 0.6: out.append(("string",))
            elif k < 0.75: out.append(("number",))
            elif k < 0.85: out.append(("boolean",))
            else:
                out.append(("oneof", [("const", s) for s in r.sample(["a", "b", "cd", ""], r.randrange(2, 4))]))
        if all(i[0] == "const" for i in out):
            out.append(("string",))
        return out

    def leaf(self):
        r = self.r
        k = r.random()
        if 0.66 <= k < 0.77 and r.random() < self.schemaable:
            k = r.random() * 0.6
        if k < 0.30: return ("Typeof", r.choice(["string", "number", "boolean"]))
        if k < 0.36: return ("Any",)
        if k < 0.42: return ("Nullish", r.choice(["null", "undefined", "void"]))
        if k < 0.44: return ("Never",)
        if k < 0.60: return ("Const", self.cst())
        if k < 0.66:
            items = self.tpl_items()
            return ("Regex", items, tpl_describe(items))
        if k < 0.70: return ("Date",)
        if k < 0.73: return ("BigInt",)
        if k < 0.77: return ("TypedArray", r.choice(TYPED_KINDS))
        if k < 0.82: return ("StringFmt", r.sample(FORMATS_S + ["unregistered"], r.randrange(1, 3)))
        if k < 0.86: return ("NumberFmt", r.sample(FORMATS_N + ["unregistered"], r.randrange(1, 3)))
        return ("AnyOfConsts", [self.cst() for _ in range(r.randrange(1, 5))])

    def object_rt(self, depth, names, strictish=False, keys=None):
        r = self.r
        n = r.randrange(0, 4)
        ks = keys if keys is not None else list(dict.fromkeys(self.key(0.12) for _ in range(n)))
        props = []
        for k in ks:
            t = self.rt(depth - 1, names)
            if r.random() < 0.3:
                t = ("Optional", t)
            props.append((k, t))
        idx = []
        if r.random() < (0.12 if strictish else 0.25):
            for _ in range(r.randrange(1, 3)):
                kt = r.choice([("Typeof", "string"), ("AnyOfConsts", ["a", "b", "x"]), ("Const", "c"),
                               ("Regex", [("const", "x"), ("string",)], "`x${string}`"), ("StringFmt", ["short"])])
                idx.append((kt, self.rt(depth - 1, names)))
        return ("Object", props, idx)

    def disc_rt(self, depth, names):
        r = self.r
        disc = r.choice(["kind", "type", "toString"])
        n = r.randrange(2, 4)
        vals = r.sample(["a", "b", "c", "toString", "constructor", "x"], n)
        members, mapping = [], []
        for v in vals:
            o = self.object_rt(depth - 1, names, keys=[k for k in list(dict.fromkeys(self.key(0.05) for _ in range(r.randrange(0, 3)))) if k != disc])
            o = ("Object", [(disc, ("Const", v))] + o[1], o[2])
            members.append(o)
            mapping.append((v, o))
        return ("Disc", members, disc, mapping, list(mapping))

    def rt(self, depth, names):
        r = self.r
        if depth <= 0:
            return self.leaf()
        k = r.random()
        if k < 0.25: return self.leaf()
        if k < 0.45: return self.object_rt(depth, names)
        if k < 0.53: return ("Array", self.rt(depth - 1, names))
        if k < 0.61:
            pre = [self.rt(depth - 1, names) for _ in range(r.randrange(0, 3))]
            rest = self.rt(depth - 1, names) if r.random() < 0.4 else None
            return ("Tuple", pre, rest)
        if k < 0.74:
            return ("AnyOf", [self.rt(depth - 1, names) for _ in range(r.randrange(2, 4))])
        if k < 0.82:
            # intersections: of objects / refs to objects / occasionally anything
            ms = []
            for _ in range(r.randrange(1, 4)):
                q = r.random()
                if q < 0.55: ms.append(self.object_rt(depth - 1, names, strictish=True))
                elif q < 0.8 and names: ms.append(("Ref", r.choice(names)))
                else: ms.append(self.rt(depth - 1, names))
            return ("AllOf", ms)
        if k < 0.87: return self.disc_rt(depth, names)
        if 0.87 <= k < 0.93 and r.random() < self.schemaable: return self.object_rt(depth, names)
        if k < 0.90: return ("Map", self.rt(depth - 1, names), self.rt(depth - 1, names))
        if k < 0.93: return ("Set", self.rt(depth - 1, names))
        if k < 0.96 and names: return ("Ref", r.choice(names))
        if k < 0.98: return ("Meta", r.choice(["doc", "a */ b"]), self.rt(depth - 1, names))
        return self.leaf()

    def env_and_rt(self, depth=3):
        """A named environment (possibly recursive, always contractive) and a root tree."""
        r = self.r
        n = r.choice([0, 0, 1, 2, 3])
        names = ["N%d" % i for i in range(n)]
        env = []
        for nm in names:
            q = r.random()
            if q < 0.5:
                body = self.object_rt(depth, names)      # recursion only below an object/array constructor
            elif q < 0.7:
                body = ("Array", self.rt(depth - 1, names))
            elif q < 0.85:
                body = ("AnyOf", [self.object_rt(depth - 1, names), ("Nullish", "null")])
            else:
                body = self.rt(depth - 1, [])
            env.append((nm, body))
        return env, self.rt(depth, names)

    # ------------------------------------------------------------ type-directed values
    def tpl_member(self, items):
        r = self.r
        out = ""
        for i in items:
            t = i[0]
            if t == "string": out += r.choice(["", "z", "zz", "a b"])
            elif t == "number": out += r.choice(["1", "42", "3.5"])
            elif t == "boolean": out += r.choice(["true", "false"])
            elif t == "const": out += i[1]
            else: out += self.tpl_member([r.choice(i[1])])
        return out

    def member(self, rt, env, depth=6, strict=False):
        """A value intended to be accepted by rt (best effort); None if none could be built."""
        r = self.r
        t = rt[0]
        envd = dict(env)
        if depth <= 0 and t in ("Ref",):
            return None
        if t == "Typeof":
            return {"string": self.string(), "number": self.num(), "boolean": B(r.random() < 0.5)}[rt[1]]
        if t == "Any": return self.any_value(1)
        if t == "Nullish": return r.choice([U, NUL])
        if t == "Never": return None
        if t == "Const": return cst_val(rt[1]) if rt[1] is not None else r.choice([U, NUL])
        if t == "Regex": return S(self.tpl_member(rt[1]))
        if t == "Date": return DATE(r.choice([0, 5000]))
        if t == "BigInt": return BIG(r.choice([0, 12]))
        if t == "TypedArray": return TYPED(rt[1], [1, 2][: r.randrange(0, 3)])
        if t == "StringFmt": return S(r.choice(["a", "ab", "abc"]))
        if t == "NumberFmt": return I(r.choice([0, 2, 4]))
        if t == "AnyOfConsts":
            return cst_val(r.choice(rt[1])) if rt[1] else None
        if t == "Tuple":
            xs = [self.member(p, env, depth - 1, strict) for p in rt[1]]
            if rt[2] is not None:
                xs += [self.member(rt[2], env, depth - 1, strict) for _ in range(r.randrange(0, 3))]
            return None if any(x is None for x in xs) else ARR(xs)
        if t == "AllOf":
            ms = [self.member(m, env, depth - 1, strict) for m in rt[1]]
            if any(m is None for m in ms): return None
            if all(m[0] == "obj" for m in ms):
                kvs = []
                for m in ms: kvs += m[1]
                return self.obj(kvs)
            return ms[0] if ms else self.any_value(1)
        if t == "AnyOf":
            for _ in range(4):
                m = self.member(r.choice(rt[1]), env, depth - 1, strict)
                if m is not None: return m
            return None
        if t == "Array":
            xs = [self.member(rt[1], env, depth - 1, strict) for _ in range(r.randrange(0, 3))]
            return None if any(x is None for x in xs) else ARR(xs)
        if t == "Map":
            kvs = [(self.member(rt[1], env, depth - 1, strict), self.member(rt[2], env, depth - 1, strict))
                   for _ in range(r.randrange(0, 3))]
            return None if any(a is None or b is None for a, b in kvs) else MAP(kvs)
        if t == "Set":
            xs = [self.member(rt[1], env, depth - 1, strict) for _ in range(r.randrange(0, 3))]
            return None if any(x is None for x in xs) else SET(xs)
        if t == "Disc":
            if not rt[3]: return None
            k, m = r.choice(rt[3])
            v = self.member(m, env, depth - 1, strict)
            if v is None or v[0] != "obj": return v
            return self.obj([(kk, vv) for kk, vv in v[1] if kk != rt[2]] + [(rt[2], S(k))])
        if t == "Optional":
            if r.random() < 0.35: return r.choice([U, NUL])
            return self.member(rt[1], env, depth - 1, strict)
        if t == "Object":
            kvs = []
            for k, p in rt[1]:
                if p[0] == "Optional" and r.random() < 0.4:
                    continue
                v = self.member(p, env, depth - 1, strict)
                if v is None: return None
                kvs.append((k, v))
            for kt, vt in rt[2]:
                for _ in range(r.randrange(0, 2)):
                    kv = self.member(kt, env, depth - 1, strict)
                    vv = self.member(vt, env, depth - 1, strict)
                    if kv is not None and vv is not None and kv[0] == "s" and not kv[1].isdigit():
                        kvs.append((kv[1], vv))
            if not strict and not rt[2] and r.random() < 0.3:
                kvs.append((r.choice(["extra", "zz"] + HOSTILE_KEYS), self.any_value(1)))
            r.shuffle(kvs)
            return self.obj(kvs)
        if t == "Ref":
            if rt[1] not in envd: return None
            return self.member(envd[rt[1]], env, depth - 1, strict)
        if t == "Meta":
            return self.member(rt[2], env, depth, strict)
        raise ValueError(rt)

    def mutate(self, v, depth=4):
        """One local change somewhere in v."""
        r = self.r
        t = v[0]
        if depth <= 0 or t not in ("arr", "obj", "map", "set") or r.random() < 0.3:
            k = r.random()
            if t in ("num", "s", "b", "n") and k < 0.4:
                # the loosely-equal neighbour of a scalar in another JS type (1 / "1" / true, 0 / "0" / "" / false, null / undefined / "null")
                if t == "num" and v[1] == "int":
                    return r.choice([S(str(v[2]))] + ([B(v[2] == 1)] if v[2] in (0, 1) else []) + ([S("")] if v[2] == 0 else []))
                if t == "s" and v[1].lstrip("-").isdigit() and len(v[1]) < 6: return I(int(v[1]))
                if t == "s" and v[1] == "": return r.choice([I(0), B(False)])
                if t == "s" and v[1] in ("true", "false"): return B(v[1] == "true")
                if t == "s" and v[1] == "null": return NUL
                if t == "b": return r.choice([I(1 if v[1] else 0), S("true" if v[1] else "false")])
                if t == "n": return r.choice([U, S("null")])
            if t == "obj" and k < 0.5:
                kvs = list(v[1])
                q = r.random()
                if kvs and q < 0.35:
                    kvs.pop(r.randrange(len(kvs)))
                elif q < 0.8:
                    kvs.append((r.choice(["extra", "a", "b", "zz"] + HOSTILE_KEYS + ["__proto__"]), self.any_value(1)))
                elif kvs:
                    i = r.randrange(len(kvs))
                    kvs[i] = (kvs[i][0], r.choice([U, NUL]))
                return self.obj(kvs)
            if t == "arr" and k < 0.5:
                xs = list(v[1])
                if xs and r.random() < 0.5: xs.pop()
                else: xs.append(self.any_value(1))
                return ARR(xs)
            return self.any_value(1)
        if t == "arr" and v[1]:
            xs = list(v[1]); i = r.randrange(len(xs)); xs[i] = self.mutate(xs[i], depth - 1); return ARR(xs)
        if t == "set" and v[1]:
            xs = list(v[1]); i = r.randrange(len(xs)); xs[i] = self.mutate(xs[i], depth - 1); return SET(xs)
        if t == "obj" and v[1]:
            kvs = list(v[1]); i = r.randrange(len(kvs)); kvs[i] = (kvs[i][0], self.mutate(kvs[i][1], depth - 1)); return OBJ(kvs)
        if t == "map" and v[1]:
            kvs = list(v[1]); i = r.randrange(len(kvs))
            if r.random() < 0.5: kvs[i] = (self.mutate(kvs[i][0], 0), kvs[i][1])
            else: kvs[i] = (kvs[i][0], self.mutate(kvs[i][1], depth - 1))
            return MAP(kvs)
        return self.any_value(1)

    def values_for(self, rt, env, n, strict=False):
        """n values: members, near misses (one mutation of a member) and unrelated values."""
        out = []
        # values of a single member of a top-level intersection: near misses of the intersection that exercise each member
        parts = [x for x in rt[1]] if rt[0] == "AllOf" else []
        for i in range(n):
            k = self.r.random()
            target = self.r.choice(parts) if parts and self.r.random() < 0.35 else rt
            m = self.member(target, env, strict=strict and self.r.random() < 0.7)
            if m is None or k < 0.15:
                out.append(self.any_value(2))
            elif k < 0.55:
                out.append(m)
            else:
                out.append(self.mutate(m))
        return out


def has_bad_keys(v):
    """Values the modelled stream excludes: integer-like or duplicate own keys (Object.keys order differs)."""
    t = v[0]
    if t == "obj":
        ks = [k for k, _ in v[1]]
        if len(set(ks)) != len(ks) or any(k.isdigit() for k in ks):
            return True
        return any(has_bad_keys(x) for _, x in v[1])
    if t == "arr": return any(has_bad_keys(x) for x in v[1])
    if t == "set":
        cs = [val_canon(x) for x in v[1]]
        # a Set / Map normalises the key -0 to +0: not expressible in the value syntax of the model
        return len(set(cs)) != len(cs) or NEGZ in v[1] or any(has_bad_keys(x) for x in v[1])
    if t == "map":
        cs = [val_canon(a) for a, _ in v[1]]
        return len(set(cs)) != len(cs) or any(a == NEGZ for a, _ in v[1]) or any(has_bad_keys(a) or has_bad_keys(b) for a, b in v[1])
    return False


# ---------------------------------------------------------------- forced shapes
def forced_cases(seed, n):
    """Structural templates that the purely random generator reaches rarely; leaves are random."""
    g = Gen(seed)
    r = g.r
    out = []

    def obj(keys, depth=1):
        return ("Object", [(k, g.rt(depth, [])) for k in keys], [])

    for i in range(n):
        kind = i % 9
        env = []
        if kind == 0:
            # a declared property whose value also matches an index signature with a *narrower* value type
            full = ["p", "q", "s"][: r.randrange(2, 4)]
            inner_props = [(k, r.choice([("Typeof", "string"), ("Typeof", "number"), ("Optional", ("Typeof", "boolean"))])) for k in full]
            narrow = inner_props[: r.randrange(1, len(inner_props))]
            rt = ("Object", [(r.choice(["a", "b", "kind"]), ("Object", inner_props, []))],
                  [(r.choice([("Typeof", "string"), ("StringFmt", ["short"])]), ("Object", narrow, []))])
        elif kind == 1:
            # union of objects with overlapping key sets (several branches match, deepmerge of projections)
            ks = ["a", "b", "c", "d"]
            rt = ("AnyOf", [("Object", [(k, r.choice([("Typeof", "string"), ("Typeof", "number"), ("Array", ("Typeof", "number")), ("Optional", ("Typeof", "string"))]))
                                          for k in r.sample(ks, r.randrange(1, 4))], []) for _ in range(r.randrange(2, 4))])
        elif kind == 2:
            # a union nested below a property/array inside another union (error paths of nested union errors)
            inner = ("AnyOf", [("Typeof", "number"), ("Typeof", "boolean"), ("Const", "x")][: r.randrange(2, 4)])
            mid = r.choice([("Array", ("Object", [("x", inner)], [])), ("Object", [("y", ("Array", inner))], []),
                            ("Tuple", [("Typeof", "string")], inner)])
            rt = ("Object", [(r.choice(["a", "b"]), ("AnyOf", [("Typeof", "string"), mid]))], [])
        elif kind == 3:
            # intersections of named objects / of literal objects
            env = [("A", obj(r.sample(["a", "b", "c"], 2))), ("B", obj(r.sample(["c", "d", "kind"], 2)))]
            rt = r.choice([("AllOf", [("Ref", "A"), ("Ref", "B")]), ("AllOf", [("Ref", "A")]),
                           ("Object", [("w", ("AllOf", [("Ref", "A"), obj(["zz"])]))], [])])
        elif kind == 4:
            # tuples: fixed, with rest, with optional-like trailing elements
            pre = [g.leaf() for _ in range(r.randrange(1, 4))]
            if r.random() < 0.5:
                pre.append(("AnyOf", [g.leaf(), ("Nullish", "undefined")]))
            rest = g.leaf() if r.random() < 0.5 else None
            if r.random() < 0.4:
                # a rest element that is an object (its members are projected / revalidated like everything else)
                rest = ("Object", [("a", g.leaf()), ("n", ("Object", [("x", g.leaf())], []))][: r.randrange(1, 3)], [])
            rt = ("Tuple", pre, rest)
        elif kind == 5 and i % 27 == 5:
            # a discriminated union whose keys become the same component name part ("a-b" / "a_b"), or one variant listed under two keys
            d = r.choice(["type", "kind"])
            if r.random() < 0.5:
                k1, k2 = r.choice([("a-b", "a_b"), ("x.y", "x y"), ("ab", "Ab"), ("v1", "v-1")])
                m1 = ("Object", [(d, ("Const", k1)), ("x", ("Typeof", "string"))], [])
                m2 = ("Object", [(d, ("Const", k2)), ("y", ("Typeof", "number"))], [])
                mp = [(k1, m1), (k2, m2)]
                rt = ("Disc", [m1, m2], d, mp, mp)
            else:
                va = ("Object", [(d, ("AnyOfConsts", ["a", "b"])), ("x", ("Typeof", "string"))], [])
                vc = ("Object", [(d, ("Const", "c")), ("y", ("Typeof", "string"))], [])
                mp = [("a", va), ("b", va), ("c", vc)]
                rt = ("Disc", [va, vc], d, mp, mp)
        elif kind == 5:
            rt = g.disc_rt(2, [])
            if r.random() < 0.5:
                rt = ("Object", [("u", rt)], [])
        elif kind == 6:
            # recursive named types
            env = [("L", ("Object", [("v", g.leaf()), ("next", ("AnyOf", [("Ref", "L"), ("Nullish", "null")]))], [])),
                   ("T", ("Object", [("kids", ("Array", ("Ref", "T"))), ("tag", ("Optional", g.leaf()))], []))]
            rt = r.choice([("Ref", "L"), ("Ref", "T"), ("Object", [("l", ("Ref", "L")), ("t", ("Ref", "T"))], [])])
        elif kind == 8 and i % 18 == 8:
            # an intersection of closed objects sharing a key (same type) that is optional in one member and required in another
            t = r.choice([("Typeof", "string"), ("Typeof", "number"), ("Const", "x"), ("Array", ("Typeof", "number"))])
            k = r.choice(["id", "a", "kind"])
            others = [(o, g.leaf()) for o in r.sample(["rev", "b", "n"], r.randrange(0, 3))]
            opt = ("Object", [(k, ("Optional", t))] + ([("w", g.leaf())] if r.random() < 0.3 else []), [])
            req = ("Object", [(k, t)] + others, [])
            members = [opt, req] if r.random() < 0.7 else [req, opt]
            if r.random() < 0.4:
                env = [("Opt", opt), ("Req", req)]
                members = [("Ref", "Opt") if m is opt else ("Ref", "Req") for m in members]
            rt = ("AllOf", members)
            if r.random() < 0.3:
                rt = ("Object", [("h", rt)], [])
        elif kind == 8:
            # an intersection of closed objects sharing a key whose types differ only in the order of array-like parts
            a, b = r.sample([("Typeof", "string"), ("Typeof", "number"), ("Typeof", "boolean"), ("Const", "x"),
                             ("AnyOf", [("Typeof", "string"), ("Typeof", "number")])], 2)
            k = r.choice(["pair", "a", "kind"])
            left = ("Object", [("id", ("Typeof", "string")), (k, ("Tuple", [a, b], None))], [])
            right = ("Object", [("id", ("Typeof", "string")), (k, ("Tuple", [b, a], None))], [])
            if r.random() < 0.5:
                env = [("Left", left), ("Right", right)]
                rt = ("AllOf", [("Ref", "Left"), ("Ref", "Right")])
            else:
                rt = ("AllOf", [left, right])
        else:
            # Map / Set / records of unions
            ko = ("Object", [("id", ("Typeof", "number"))], [])
            vo = ("Object", [("id", ("Typeof", "number")), ("name", ("Typeof", "string")), ("age", ("Optional", ("Typeof", "number")))], [])
            rt = r.choice([("Map", ("Typeof", "string"), vo), ("Map", ko, vo), ("Map", ko, g.leaf()), ("Map", vo, ko), ("Set", vo),
                           ("Map", ("Typeof", "string"), ("AnyOf", [g.leaf(), g.leaf()])), ("Set", ("AnyOf", [g.leaf(), g.leaf()])),
                           ("Object", [], [(("Typeof", "string"), ("AnyOf", [g.leaf(), ("Object", [("a", g.leaf())], [])]))]),
                           ("AnyOf", [("Map", ("Typeof", "string"), g.leaf()), ("Nullish", "null")])])
        out.append((env, rt))
    return out
