"""Reference membership for the TypeScript subset of lib/tsgen.py, read under beff's runtime conventions
(null and undefined interchangeable, optional = absent or nullish, undeclared properties ignored).
A test oracle for the source level of C01 (not a proof): returns True / False / None (not judged)."""
import re

from .vals import *


class Unjudged(Exception):
    pass


def nullish(v): return v[0] in ("u", "n")


NUMBER_TS = r"[ \t\n\r]*(?:[+-]?(?:\d+\.?\d*(?:[eE][+-]?\d+)?|\.\d+(?:[eE][+-]?\d+)?)|0[xX][0-9a-fA-F]+|0[bB][01]+|0[oO][0-7]+)[ \t\n\r]*"


def tpl_regex(items):
    out = ""
    for i in items:
        if isinstance(i, str):
            out += {"string": "(?:.*)", "number": "(?:%s)" % NUMBER_TS, "boolean": "(?:true|false)"}[i]
        else:
            out += re.escape(i[1])
    return re.compile(out, re.S)


class Ref:
    def __init__(self, decls):
        self.decls = {d[1]: d for d in decls}

    # ---- object shapes
    def shape(self, t, depth=0):
        """(props: {name: (optional, type)}, index or None) of an object-like type, else raise Unjudged"""
        if depth > 30: raise Unjudged("deep")
        k = t[0]
        if k in ("paren", "readonly"): return self.shape(t[1], depth + 1)
        if k == "obj":
            return {n: (o, x) for n, o, x in t[1]}, t[2]
        if k == "ref":
            d = self.decls.get(t[1])
            if d is None: raise Unjudged("unknown ref")
            if d[0] == "alias":
                return self.shape(self.subst(d[3], d[2], t[2]), depth + 1)
            if d[0] == "interface":
                props, idx = {}, None
                for e in d[2]:
                    p, i = self.shape(("ref", e, []), depth + 1)
                    props.update(p); idx = idx or i
                props.update({n: (o, x) for n, o, x in d[3]})
                return props, idx
            raise Unjudged("enum shape")
        if k == "inter":
            props, idx = {}, None
            for m in t[1]:
                p, i = self.shape(m, depth + 1)
                for n, (o, x) in p.items():
                    if n in props:
                        o0, x0 = props[n]
                        props[n] = (o0 and o, ("inter", [x0, x]))
                    else:
                        props[n] = (o, x)
                if i is not None:
                    if idx is not None: raise Unjudged("two index signatures")
                    idx = i
            return props, idx
        if k == "partial":
            p, i = self.shape(t[1], depth + 1)
            if i is not None: i = (i[0], ("union", [i[1], ("undefined",)]))      # homomorphic mapping also covers the index signature
            return {n: (True, x) for n, (o, x) in p.items()}, i
        if k == "required":
            p, i = self.shape(t[1], depth + 1)
            return {n: (False, x) for n, (o, x) in p.items()}, i
        if k == "pick":
            p, i = self.shape(t[1], depth + 1)
            return {n: v for n, v in p.items() if n in t[2]}, None
        if k == "omit":
            p, i = self.shape(t[1], depth + 1)
            return {n: v for n, v in p.items() if n not in t[2]}, i
        if k == "record":
            keys = self.lit_strings(t[1])
            if keys is None: return {}, (t[1], t[2])
            return {n: (False, t[2]) for n in keys}, None
        raise Unjudged("shape of " + k)

    def lit_strings(self, t):
        k = t[0]
        if k == "paren": return self.lit_strings(t[1])
        if k == "lit" and isinstance(t[1], str): return [t[1]]
        if k == "union":
            out = []
            for m in t[1]:
                s = self.lit_strings(m)
                if s is None: return None
                out += s
            return out
        if k == "ref":
            d = self.decls.get(t[1])
            if d is not None and d[0] == "alias" and not d[2]: return self.lit_strings(d[3])
        return None

    def subst(self, t, params, args):
        if not params: return t
        m = dict(zip(params, args))
        from .tsgen import map_ty
        def f(x):
            if x[0] == "ref" and x[1] in m and not x[2]: return m[x[1]]
            return x
        return map_ty(f, t)

    # ---- membership
    def member(self, t, v, depth=0):
        if depth > 60: raise Unjudged("deep")
        k = t[0]
        m = lambda t2, v2: self.member(t2, v2, depth + 1)
        if k in ("null", "undefined", "void"): return nullish(v)
        if k in ("any", "unknown"): return True
        if k == "never": return False
        if k == "bool": return v[0] == "b"
        if k == "str": return v[0] == "s"
        if k == "num": return v[0] == "num"
        if k == "bigint": return v[0] == "big"
        if k == "date": return v[0] == "date"
        if k == "typed": return v[0] == "typed" and v[1] == t[1]
        if k == "lit":
            x = t[1]
            if isinstance(x, bool): return v == B(x)
            if isinstance(x, int): return v == I(x) or (x == 0 and v == NEGZ)      # -0 === 0
            return v == S(x)
        if k == "tpl":
            return v[0] == "s" and tpl_regex(t[1]).fullmatch(v[1]) is not None
        if k == "paren" or k == "readonly":
            if k == "readonly" and t[1][0] not in ("obj", "ref", "inter", "paren", "arr", "tup"): raise Unjudged("readonly")
            return m(t[1], v)
        if k == "arr": return v[0] == "arr" and all(m(t[1], x) for x in v[1])
        if k == "set": return v[0] == "set" and all(m(t[1], x) for x in v[1])
        if k == "map": return v[0] == "map" and all(m(t[1], a) and m(t[2], b) for a, b in v[1])
        if k == "tup":
            if v[0] != "arr": return False
            xs, pre = v[1], t[1]
            if len(xs) < len(pre): return False
            if t[2] is None and len(xs) != len(pre): return False
            return all(m(p, x) for p, x in zip(pre, xs)) and all(m(t[2], x) for x in xs[len(pre):])
        if k == "union": return any(m(x, v) for x in t[1])
        if k == "inter": return all(m(x, v) for x in t[1])
        if k == "ref":
            d = self.decls.get(t[1])
            if d is None: raise Unjudged("unknown ref")
            if d[0] == "alias": return m(self.subst(d[3], d[2], t[2]), v)
            if d[0] == "enum": return any(v == (S(x) if isinstance(x, str) else I(x)) for _, x in d[2])
            return self.obj_member(t, v, depth)
        if k in ("obj", "partial", "required", "pick", "omit", "record"):
            return self.obj_member(t, v, depth)
        if k == "keyof":
            props, idx = self.shape(t[1])
            if idx is not None: raise Unjudged("keyof with index")
            return v[0] == "s" and v[1] in props
        if k == "index":
            props, idx = self.shape(t[1])
            if t[2] not in props: raise Unjudged("index")
            o, x = props[t[2]]
            return (o and nullish(v)) or m(x, v)
        raise Unjudged(k)

    def obj_member(self, t, v, depth):
        props, idx = self.shape(t)
        if v[0] in ("u", "n", "b", "num", "s", "big", "sym", "fun", "arr"): return False
        fields = dict(v[1]) if v[0] == "obj" else {}
        if v[0] == "typed":      # the elements of a typed array are own enumerable properties
            fields = {str(i): (BIG(x) if v[1].startswith("Big") else I(x)) for i, x in enumerate(v[2])}
        for n, (o, x) in props.items():
            val = fields.get(n, U)
            if o and nullish(val): continue
            if not self.member(x, val, depth + 1): return False
        if idx is not None:
            kt, vt = idx
            for n, val in fields.items():
                if n in props: continue
                if not self.member(kt, S(n), depth + 1): return False
                if not self.member(vt, val, depth + 1): return False
        return True


def judge(decls, t, v):
    try:
        return Ref(decls).member(t, v)
    except Unjudged:
        return None
    except RecursionError:
        return None
