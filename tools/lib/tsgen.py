"""TypeScript program generator: a small source AST for the subset beff supports, its printer, random generation,
meaning-preserving rewrites (C08) and splitting over modules (C09)."""
import json
import random

KEYS = ["a", "b", "c", "d", "kind", "type"]
LITS = ["x", "y", "ab", "c"]
# string literals that need escaping when they are printed again (quotes, backslashes, line breaks, a tab, a quote-like character)
HOSTILE_LITS = ["C:\\temp", "q\"t", "l1\nl2", "t\tb", "it's", "a\\", "`b`", "${x}"]


def q(s):
    return json.dumps(s)


# ---------------------------------------------------------------- printer
def ts(t, top=False):
    k = t[0]
    if k in ("null", "undefined", "void", "any", "unknown", "never", "bigint"): return k
    if k == "bool": return "boolean"
    if k == "str": return "string"
    if k == "num": return "number"
    if k == "date": return "Date"
    if k == "lit":
        v = t[1]
        if isinstance(v, bool): return "true" if v else "false"
        if isinstance(v, int): return str(v)
        return q(v)
    if k == "tpl":
        return "`" + "".join(("${%s}" % i) if isinstance(i, str) else i[1] for i in t[1]) + "`"
    if k == "arr": return "Array<%s>" % ts(t[1])
    if k == "tup":
        parts = [ts(x) for x in t[1]] + (["...Array<%s>" % ts(t[2])] if t[2] is not None else [])
        return "[" + ", ".join(parts) + "]"
    if k == "obj":
        parts = ["%s%s: %s" % (q(n), "?" if opt else "", ts(x)) for n, opt, x in t[1]]
        if t[2] is not None:
            parts.append("[key: %s]: %s" % (ts(t[2][0]), ts(t[2][1])))
        return "{ " + "; ".join(parts) + " }"
    if k == "union": return "(" + " | ".join(ts(x) for x in t[1]) + ")"
    if k == "inter": return "(" + " & ".join(ts(x) for x in t[1]) + ")"
    if k == "ref": return t[1] + ("<" + ", ".join(ts(a) for a in t[2]) + ">" if t[2] else "")
    if k == "partial": return "Partial<%s>" % ts(t[1])
    if k == "required": return "Required<%s>" % ts(t[1])
    if k == "readonly": return "Readonly<%s>" % ts(t[1])
    if k == "pick": return "Pick<%s, %s>" % (ts(t[1]), " | ".join(q(x) for x in t[2]))
    if k == "omit": return "Omit<%s, %s>" % (ts(t[1]), " | ".join(q(x) for x in t[2]))
    if k == "record": return "Record<%s, %s>" % (ts(t[1]), ts(t[2]))
    if k == "exclude": return "Exclude<%s, %s>" % (ts(t[1]), ts(t[2]))
    if k == "keyof": return "keyof %s" % ts(t[1])
    if k == "index": return "%s[%s]" % (ts(t[1]), q(t[2]))
    if k == "map": return "Map<%s, %s>" % (ts(t[1]), ts(t[2]))
    if k == "set": return "Set<%s>" % ts(t[1])
    if k == "typed": return t[1]
    if k == "paren": return "(" + ts(t[1]) + ")"
    raise ValueError(t)


def decl_ts(d, export=True):
    ex = "export " if export else ""
    if d[0] == "alias":
        params = "<" + ", ".join(d[2]) + ">" if d[2] else ""
        doc = ("/** %s */\n" % d[4]) if len(d) > 4 and d[4] else ""
        return "%s%stype %s%s = %s;" % (doc, ex, d[1], params, ts(d[3]))
    if d[0] == "interface":
        ext = " extends " + ", ".join(d[2]) if d[2] else ""
        body = "; ".join("%s%s: %s" % (q(n), "?" if opt else "", ts(x)) for n, opt, x in d[3])
        return "%sinterface %s%s { %s }" % (ex, d[1], ext, body)
    if d[0] == "enum":
        return "%senum %s { %s }" % (ex, d[1], ", ".join("%s = %s" % (m, q(v) if isinstance(v, str) else v) for m, v in d[2]))
    raise ValueError(d)


def program_ts(decls, parsers, extra=""):
    lines = [decl_ts(d) for d in decls]
    lines.append(extra)
    lines.append("parse.buildParsers<{ %s }>();" % ", ".join("%s: %s" % (n, ts(t)) for n, t in parsers))
    return "\n".join(x for x in lines if x)


# ---------------------------------------------------------------- generation
class TsGen:
    def __init__(self, seed, rich=True):
        self.r = random.Random(seed)
        self.rich = rich

    def leaf(self):
        r = self.r
        k = r.random()
        if k < 0.18: return ("str",)
        if k < 0.32: return ("num",)
        if k < 0.42: return ("bool",)
        if k < 0.48: return ("null",)
        if k < 0.52: return ("undefined",)
        if k < 0.66: return ("lit", r.choice(LITS) if r.random() < 0.85 else r.choice(HOSTILE_LITS))
        if k < 0.74: return ("lit", r.choice([0, 1, 2, 7]))
        if k < 0.78: return ("lit", r.random() < 0.5)
        if k < 0.82: return ("any",)
        if k < 0.85: return ("unknown",)
        if k < 0.88: return ("date",)
        if k < 0.90: return ("bigint",)
        if k < 0.93: return ("tpl", r.choice([[("const", "id_"), "string"], [("const", "v"), "number"], ["string", ("const", "-"), "string"]]))
        if k < 0.95: return ("typed", r.choice(["Uint8Array", "Float64Array", "BigInt64Array"]))
        return ("str",)

    def obj(self, depth, names, keys=None):
        r = self.r
        ks = keys if keys is not None else r.sample(KEYS, r.randrange(1, 4))
        props = [(k, r.random() < 0.3, self.ty(depth - 1, names)) for k in ks]
        idx = None
        if r.random() < 0.12:
            idx = (("str",), self.ty(depth - 1, names))
        return ("obj", props, idx)

    def disc_union(self, depth, names):
        r = self.r
        d = r.choice(["kind", "type"])
        vals = r.sample(["a", "b", "c", "x"], r.randrange(2, 4))
        ms = []
        for v in vals:
            o = self.obj(depth - 1, names, keys=[k for k in r.sample(["a", "b", "c", "d"], r.randrange(0, 3))])
            ms.append(("obj", [(d, False, ("lit", v))] + o[1], None))
        return ("union", ms)

    def ty(self, depth, names, allow_ref=True):
        r = self.r
        if depth <= 0: return self.leaf()
        k = r.random()
        if k < 0.22: return self.leaf()
        if k < 0.42: return self.obj(depth, names)
        if k < 0.50: return ("arr", self.ty(depth - 1, names))
        if k < 0.56:
            return ("tup", [self.ty(depth - 1, names) for _ in range(r.randrange(1, 3))], self.ty(depth - 1, names) if r.random() < 0.3 else None)
        if k < 0.68: return ("union", [self.ty(depth - 1, names) for _ in range(r.randrange(2, 4))])
        if k < 0.73: return self.disc_union(depth, names)
        if k < 0.78: return ("inter", [self.obj(depth - 1, names, keys=ks) for ks in (["a", "b"], ["c"], ["d", "kind"])[: r.randrange(2, 4)]])
        if k < 0.86 and names and allow_ref: return ("ref", r.choice(names), [])
        if k < 0.89: return ("union", [("lit", x) for x in r.sample(LITS + [1, 2], r.randrange(2, 4))])
        if self.rich:
            if k < 0.91: return ("partial", self.obj(depth - 1, names))
            if k < 0.92: return ("required", self.obj(depth - 1, names))
            if k < 0.935:
                o = self.obj(depth - 1, names, keys=["a", "b", "c"])
                return ("pick", o, r.sample(["a", "b", "c"], r.randrange(1, 3)))
            if k < 0.95:
                o = self.obj(depth - 1, names, keys=["a", "b", "c"])
                return ("omit", o, r.sample(["a", "b", "c"], r.randrange(1, 3)))
            if k < 0.965: return ("record", r.choice([("str",), ("union", [("lit", "x"), ("lit", "y")])]), self.ty(depth - 1, names))
            if k < 0.975: return ("map", ("str",), self.ty(depth - 1, names))
            if k < 0.985: return ("set", self.ty(depth - 1, names))
            if k < 0.995: return ("readonly", self.obj(depth - 1, names))
        return self.leaf()

    def program(self, n_decls=None, depth=3):
        r = self.r
        n = n_decls if n_decls is not None else r.randrange(1, 6)
        names = ["T%d" % i for i in range(n)]
        decls = []
        for i, nm in enumerate(names):
            q_ = r.random()
            if q_ < 0.55:
                body = self.obj(depth, names)                 # references (also recursive ones) below an object constructor
            elif q_ < 0.7:
                body = ("arr", self.ty(depth - 1, names))
            elif q_ < 0.8:
                body = self.disc_union(depth, names[:i])
            elif q_ < 0.9:
                body = ("union", [self.obj(depth - 1, names), ("null",)])
            else:
                body = self.ty(depth - 1, names[:i])         # earlier names only: no cycle through unions/aliases
            if body[0] == "obj" and r.random() < 0.35 and body[2] is None:
                decls.append(("interface", nm, [], body[1]))
            else:
                decls.append(("alias", nm, [], body))
        parsers = [(nm, ("ref", nm, [])) for nm in names]
        if r.random() < 0.5:
            parsers.append(("Extra", self.ty(depth - 1, names)))
        return decls, parsers


    def forced_program(self, kind):
        """program families the random generator reaches rarely"""
        r = self.r
        if kind % 4 == 0:
            # a discriminated union one of whose members is an intersection of named objects that both declare the
            # discriminator (a wider and a narrower literal set)
            d = r.choice(["kind", "type"])
            lits = r.sample(["a", "b", "c", "x"], 3)
            wide_name, narrow_name = r.sample(["Common", "PartA", "Shared", "Base", "Zed", "Alpha"], 2)
            wide = ("alias", wide_name, [], ("obj", [(d, False, ("union", [("lit", lits[0]), ("lit", lits[1])])), ("id", False, ("str",))], None))
            narrow = ("alias", narrow_name, [], ("obj", [(d, False, ("lit", lits[0])), ("x", False, self.leaf())], None))
            other = ("obj", [(d, False, ("lit", lits[2])), ("z", r.random() < 0.5, self.leaf())], None)
            u = ("alias", "U", [], ("union", [("inter", [("ref", wide_name, []), ("ref", narrow_name, [])]), other]))
            decls = [wide, narrow, u]
            r.shuffle(decls)
            return decls, [("U", ("ref", "U", [])), ("W", ("obj", [("u", False, ("ref", "U", []))], None))]
        if kind % 4 == 1:
            # unions of objects with two candidate discriminators
            ms = []
            for v in r.sample(["a", "b", "c"], r.randrange(2, 4)):
                ms.append(("obj", [("kind", False, ("lit", v)), ("tag", False, ("lit", v + "t")), (r.choice(["p", "q"]), r.random() < 0.4, self.leaf())], None))
            return [("alias", "S", [], ("union", ms))], [("S", ("ref", "S", [])), ("L", ("arr", ("ref", "S", [])))]
        if kind % 8 == 6:
            # an intersection of inline objects that give one key the same type with different optionality (either order), plus other keys
            t = self.leaf()
            k = r.choice(["a", "id", "k"])
            m1 = ("obj", [(k, True, t)] + ([("p", r.random() < 0.5, self.leaf())] if r.random() < 0.5 else []), None)
            m2 = ("obj", [(k, False, t)] + ([("q", r.random() < 0.5, self.leaf())] if r.random() < 0.5 else []), None)
            ms = [m1, m2] if r.random() < 0.5 else [m2, m1]
            return [("alias", "I", [], ("inter", ms))], [("I", ("ref", "I", [])), ("W", ("obj", [("i", False, ("inter", list(reversed(ms))))], None))]
        if kind % 4 == 2:
            # intersections: literal members vs named members, shared keys
            a = ("alias", "A", [], ("obj", [("a", False, self.leaf()), ("k", False, ("str",))], None))
            b = ("alias", "B", [], ("obj", [("b", r.random() < 0.5, self.leaf()), ("k", False, ("str",))], None))
            return [a, b, ("alias", "AB", [], ("inter", [("ref", "A", []), ("ref", "B", [])]))], \
                   [("AB", ("ref", "AB", [])), ("Lit", ("inter", [a[3], b[3]]))]
        # recursive types through every container
        t = ("alias", "Tree", [], ("obj", [("v", False, self.leaf()), ("kids", False, ("arr", ("ref", "Tree", []))),
                                            ("next", True, ("union", [("ref", "Tree", []), ("null",)]))], None))
        return [t], [("Tree", ("ref", "Tree", [])), ("Forest", ("tup", [("ref", "Tree", [])], ("ref", "Tree", [])))]


# ---------------------------------------------------------------- meaning-preserving rewrites (C08)
def map_ty(f, t):
    k = t[0]
    if k in ("arr", "set", "partial", "required", "readonly", "keyof", "paren"): t2 = (k, map_ty(f, t[1])) + tuple(t[2:])
    elif k == "tup": t2 = (k, [map_ty(f, x) for x in t[1]], None if t[2] is None else map_ty(f, t[2]))
    elif k == "obj": t2 = (k, [(n, o, map_ty(f, x)) for n, o, x in t[1]], None if t[2] is None else (map_ty(f, t[2][0]), map_ty(f, t[2][1])))
    elif k in ("union", "inter"): t2 = (k, [map_ty(f, x) for x in t[1]])
    elif k == "ref": t2 = (k, t[1], [map_ty(f, a) for a in t[2]])
    elif k in ("pick", "omit"): t2 = (k, map_ty(f, t[1]), t[2])
    elif k in ("record", "map", "exclude"): t2 = (k, map_ty(f, t[1]), map_ty(f, t[2]))
    elif k == "index": t2 = (k, map_ty(f, t[1]), t[2])
    else: t2 = t
    return f(t2)


def rewrite_program(decls, parsers, r, kinds=None):
    """Apply one random meaning-preserving rewrite; returns (decls, parsers, description, moves_alias_boundary)."""
    kinds = kinds or ["members", "props", "decls", "parens", "readonly", "iface", "alias_intro", "rename", "jsdoc", "nested_union"]
    kind = r.choice(kinds)
    decls = list(decls)
    if kind == "members":
        def f(t):
            if t[0] in ("union", "inter"):
                ms = list(t[1]); r.shuffle(ms); return (t[0], ms)
            return t
        return [remap_decl(d, f) for d in decls], [(n, map_ty(f, t)) for n, t in parsers], "union/intersection members reordered", False
    if kind == "props":
        def f(t):
            if t[0] == "obj":
                ps = list(t[1]); r.shuffle(ps); return ("obj", ps, t[2])
            return t
        out = []
        for d in decls:
            d = remap_decl(d, f)
            if d[0] == "interface":
                ps = list(d[3]); r.shuffle(ps); d = ("interface", d[1], d[2], ps)
            out.append(d)
        return out, [(n, map_ty(f, t)) for n, t in parsers], "object properties reordered", False
    if kind == "decls":
        r.shuffle(decls)
        ps = list(parsers); r.shuffle(ps)
        return decls, ps, "declarations reordered", False
    if kind == "parens":
        def f(t):
            if t[0] in ("obj", "arr", "lit", "str", "num") and r.random() < 0.3: return ("paren", t)
            return t
        return [remap_decl(d, f) for d in decls], [(n, map_ty(f, t)) for n, t in parsers], "parentheses added", False
    if kind == "readonly":
        def f(t):
            if t[0] == "obj" and r.random() < 0.4: return ("readonly", t)
            return t
        return [remap_decl(d, f) for d in decls], parsers, "Readonly<> added around object types", False
    if kind == "iface":
        out = []
        for d in decls:
            if d[0] == "interface" and not d[2]:
                out.append(("alias", d[1], [], ("obj", d[3], None)))
            elif d[0] == "alias" and not d[2] and d[3][0] == "obj" and d[3][2] is None and r.random() < 0.7:
                out.append(("interface", d[1], [], d[3][1]))
            else:
                out.append(d)
        return out, parsers, "interface <-> object type alias", False
    if kind == "jsdoc":
        out = []
        for d in decls:
            out.append(d)
        return out, parsers, "comments added", False
    if kind == "rename":
        names = [d[1] for d in decls]
        m = {n: "Zq" + n[::-1] for n in names}
        def f(t):
            if t[0] == "ref" and t[1] in m: return ("ref", m[t[1]], t[2])
            return t
        out = []
        for d in decls:
            d = remap_decl(d, f)
            d = (d[0], m[d[1]]) + tuple(d[2:])
            if d[0] == "interface": d = ("interface", d[1], [m.get(x, x) for x in d[2]], d[3])
            out.append(d)
        return out, [(n, map_ty(f, t)) for n, t in parsers], "declared types renamed", True
    if kind == "alias_intro":
        # name one anonymous object type used in a declaration body
        cands = []
        for i, d in enumerate(decls):
            body = d[3] if d[0] == "alias" else None
            if body is not None and body[0] in ("union", "arr", "obj"):
                cands.append(i)
        if not cands:
            return decls, parsers, "no-op", False
        i = r.choice(cands)
        d = decls[i]
        done = [None]
        intro = "Intro%d" % len(decls)
        def f(t):
            if done[0] is None and t[0] == "obj" and t is not d[3]:
                done[0] = t
                return ("ref", intro, [])
            return t
        nb = map_ty(f, d[3])
        if done[0] is None:
            return decls, parsers, "no-op", False
        decls[i] = ("alias", d[1], d[2], nb)
        decls.append(("alias", intro, [], done[0]))
        return decls, parsers, "alias introduced for an anonymous object type", True
    if kind == "nested_union":
        def f(t):
            if t[0] == "union" and len(t[1]) >= 3:
                return ("union", [("union", t[1][:2])] + t[1][2:])
            return t
        return [remap_decl(d, f) for d in decls], [(n, map_ty(f, t)) for n, t in parsers], "union written as nested unions", False
    return decls, parsers, "no-op", False


def remap_decl(d, f):
    if d[0] == "alias": return ("alias", d[1], d[2], map_ty(f, d[3])) + tuple(d[4:])
    if d[0] == "interface": return ("interface", d[1], d[2], [(n, o, map_ty(f, x)) for n, o, x in d[3]])
    return d


# ---------------------------------------------------------------- splitting over modules (C09)
def refs_of(t, acc=None):
    acc = set() if acc is None else acc
    def f(x):
        if x[0] == "ref": acc.add(x[1])
        return x
    map_ty(f, t)
    return acc


def decl_refs(d):
    acc = set()
    if d[0] == "alias": refs_of(d[3], acc)
    if d[0] == "interface":
        for _, _, x in d[3]: refs_of(x, acc)
        acc |= set(d[2])
    return acc


def split_program(decls, parsers, r):
    """Distribute the declarations over files; returns [(file, text)] with entry.ts first, and a description."""
    names = [d[1] for d in decls]
    nfiles = r.randrange(1, 4)
    files = ["m%d" % i for i in range(nfiles)]
    home = {n: r.choice(files) for n in names}
    style = {}
    texts = {}
    desc = []
    for f in files:
        mine = [d for d in decls if home[d[1]] == f]
        needed = set()
        for d in mine:
            needed |= decl_refs(d)
        needed -= {d[1] for d in mine}
        needed &= set(names)
        lines = []
        by_file = {}
        for n in sorted(needed):
            by_file.setdefault(home[n], []).append(n)
        for src, ns in sorted(by_file.items()):
            st = r.choice(["named", "type", "star"])
            desc.append("%s<-%s:%s" % (f, src, st))
            if st == "named":
                lines.append("import { %s } from \"./%s\";" % (", ".join(ns), src))
                loc = {n: n for n in ns}
            elif st == "type":
                lines.append("import type { %s } from \"./%s\";" % (", ".join(ns), src))
                loc = {n: n for n in ns}
            else:
                lines.append("import * as NS_%s from \"./%s\";" % (src, src))
                loc = {n: "NS_%s.%s" % (src, n) for n in ns}
            style.setdefault(f, {}).update(loc)
        ren = style.get(f, {})
        def fr(t, ren=ren):
            if t[0] == "ref" and t[1] in ren: return ("ref", ren[t[1]], t[2])
            return t
        for d in mine:
            d2 = remap_decl(d, fr)
            if d2[0] == "interface":
                d2 = ("interface", d2[1], [ren.get(x, x) for x in d2[2]], d2[3])
            lines.append(decl_ts(d2, export=True))
        texts[f] = "\n".join(lines)
    # entry: imports everything it needs through a barrel or directly
    needed = set()
    for _, t in parsers:
        refs_of(t, needed)
    needed &= set(names)
    lines = []
    use_barrel = r.random() < 0.4 and nfiles > 1
    if use_barrel:
        texts["barrel"] = "\n".join("export * from \"./%s\";" % f for f in files)
        lines.append("import { %s } from \"./barrel\";" % ", ".join(sorted(needed))) if needed else None
        desc.append("entry<-barrel(export *)")
    else:
        by_file = {}
        for n in sorted(needed):
            by_file.setdefault(home[n], []).append(n)
        for src, ns in sorted(by_file.items()):
            if r.random() < 0.3:
                lines.append("import { %s } from \"./%s\";" % (", ".join("%s as R_%s" % (n, n) for n in ns), src))
                for n in ns: style.setdefault("entry", {})[n] = "R_" + n
                desc.append("entry<-%s:renamed" % src)
            else:
                lines.append("import { %s } from \"./%s\";" % (", ".join(ns), src))
                desc.append("entry<-%s:named" % src)
    ren = style.get("entry", {})
    def fr(t):
        if t[0] == "ref" and t[1] in ren: return ("ref", ren[t[1]], t[2])
        return t
    lines.append("parse.buildParsers<{ %s }>();" % ", ".join("%s: %s" % (n, ts(map_ty(fr, t))) for n, t in parsers))
    out = [("entry.ts", "\n".join(x for x in lines if x))]
    for f, text in texts.items():
        out.append((f + ".ts", text))
    return out, ",".join(desc)
