#!/bin/bash
# usage: seed_confirm.sh <property> <worktree> <name>
# Confirms a seeded change (tests pass with it, demo fails with it and passes without) and stores it under /verif/seeded/<name>/.
set -u
P=$1; WT=$2; NAME=$3
OUT=/verif/seeded/$NAME
mkdir -p $OUT
cp $WT/_out/patch.diff $OUT/patch.diff
rm -rf $OUT/demo; cp -r $WT/_out/demo $OUT/demo
cd $WT
export CARGO_TARGET_DIR=$WT/target CARGO_NET_OFFLINE=true
if git diff --quiet; then git apply _out/patch.diff; fi
TESTS=$(cargo test --workspace --no-fail-fast --offline 2>&1 | grep -E "^test result" | awk '{p+=$4; f+=$6} END {print p" passed "f" failed"}')
bash $OUT/demo/run.sh $WT > $OUT/demo_with.log 2>&1; WITH=$?
bash $OUT/demo/run.sh /repo > $OUT/demo_without.log 2>&1; WITHOUT=$?
python3 - <<PY
import json
m=json.load(open("$WT/_out/meta.json"))
m["confirmed"]={"cargo_test_with_change":"$TESTS","demo_exit_with_change":$WITH,"demo_exit_on_unchanged_repo":$WITHOUT,
 "commands":["cargo test --workspace --no-fail-fast --offline (in scratch worktree with patch)","demo/run.sh <worktree>","demo/run.sh /repo"]}
json.dump(m,open("$OUT/meta.json","w"),indent=1)
print("$NAME", m["confirmed"])
PY
