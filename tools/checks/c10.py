"""C10 — compilation output is a deterministic function of the sources."""
import collections
import json
import os
import random
import subprocess
from lib import common, cstage, tsgen

THEOREMS = ["C10_named_validators_independent_of_map_order", "C10_refuted_first_error_depends_on_map_order",
            "C10_first_error_in_name_order_is_deterministic"]

# iteration sites over HashMap- and HashSet-typed bindings that the model accounts for: (file, normalised source line) -> why it is harmless
EXPECTED_SITES = {
    ("frontend/mod.rs", "for it in &s.exprs {"): "false positive of the syntactic scan: `exprs` of a template literal is a Vec",
    ("frontend/mod.rs", "let mut named_values = module.symbol_exports.named_values.iter().collect::<Vec<_>>();"):
        "collected and sorted by name before use (fix: commit)",
    ("frontend/mod.rs", "let mut named_unknown = module.symbol_exports.named_unknown.iter().collect::<Vec<_>>();"):
        "collected and sorted by name before use (fix: commit)",
    ("frontend/mod.rs", "for (name, sym) in named_values {"): "iterates the sorted Vec of the line above",
    ("frontend/mod.rs", "for (name, sym) in named_unknown {"): "iterates the sorted Vec of the line above",
}


def diag_projects(r, n):
    """projects with several independent errors, also behind namespace imports"""
    out = []
    bad_exprs = ["foo()", "bar(1)", "new Baz()", "1 + 2", "x ? 1 : 2", "`a${1}`.length"]
    for i in range(n):
        k = r.randrange(2, 5)
        consts = "\n".join("export const c%d = %s;" % (j, r.choice(bad_exprs)) for j in range(k))
        style = r.choice(["ns", "ns_member", "types"])
        if style == "ns":
            files = [("entry.ts", 'import * as NS from "./m0";\nexport type T = typeof NS;\nparse.buildParsers<{ T: T }>();'), ("m0.ts", consts)]
        elif style == "ns_member":
            files = [("entry.ts", 'import * as NS from "./m0";\nexport type T = { a: typeof NS, b: typeof NS.c0 };\nparse.buildParsers<{ T: T }>();'), ("m0.ts", consts)]
        else:
            files = [("entry.ts", "export type A = { a: Missing1; b: Missing2 };\nexport type B = Array<Nope>;\nparse.buildParsers<{ A: A, B: B }>();")]
        out.append(files)
    return out


def mapped_projects(r, n):
    """mapped types over several literal keys: value types that fail with different errors per key, and value types that go
    through the semantic engine over a recursive type (each extraction draws names for generated helper types)"""
    out = []
    keysets = [["key", "tag"], ["a", "b", "c"], ["left", "right", "up", "down"], ["x1", "x2", "x3", "x4", "x5", "x6"]]
    for i in range(n):
        ks = r.choice(keysets)
        union = " | ".join('"%s"' % k for k in ks)
        style = i % 3
        if style == 0:
            bads = ["symbol", "Uppercase<K>", "Missing_" + ks[0], "InstanceType<K>", "unique symbol"]
            r.shuffle(bads)
            chain = "never"
            for k, b in zip(ks[1:], bads):
                chain = 'K extends "%s" ? %s : %s' % (k, b, chain)
            body = 'K extends "%s" ? %s : %s' % (ks[0], bads[-1], chain)
            text = "export type M = { [K in %s]: %s };\nparse.buildParsers<{ M: M }>();" % (union, body)
        elif style == 1:
            text = ("export type Tree = { v: string; kids: Tree[] };\ntype Slot = %s;\n"
                    "export type M = { [K in Slot]: Exclude<{ slot: K; root: Tree } | null, null> };\nparse.buildParsers<{ M: M }>();" % union)
        else:
            text = ("export type L = { v: number; next: L | null };\n"
                    "export type M = { [K in %s]: Extract<{ k: K; l: L } | K | null, object> };\n"
                    "export type P = Partial<Record<%s, Exclude<L | string, string>>>;\nparse.buildParsers<{ M: M, P: P }>();" % (union, union))
        out.append([("entry.ts", text)])
    return out


def multi_clause_projects(r, n):
    """semantically computed types whose result has several clauses in one DNF, each with recursive parts: every clause that is
    converted draws the next helper-type name, so the order in which the clauses are visited is visible in the output"""
    out = []
    shapes = ['{ kind: "%(k)s"; children: %(n)s[] }', '{ kind: "%(k)s"; next: %(n)s | null; v: number }',
              '{ kind: "%(k)s"; l: %(n)s | null; r: %(n)s | null }', '{ kind: "%(k)s"; members: Array<{ m: %(n)s }> }']
    for i in range(n):
        k = r.randrange(2, 5)
        names = ["N%d" % j for j in range(k)]
        decls = ["export type %s = %s;" % (nm, r.choice(shapes) % {"k": nm.lower(), "n": nm}) for nm in names]
        holder = " | ".join("{ item: %s }" % nm for nm in names)
        uses = ['export type H = %s;\nexport type T = H["item"];' % holder,
                'export type T = Exclude<%s | "none", "none">;' % " | ".join(names),
                'export type H = %s;\nexport type T = { a: H["item"]; b: Exclude<%s | null, null> };' % (holder, " | ".join(names[:2]))]
        out.append([("entry.ts", "\n".join(decls) + "\n" + uses[i % len(uses)] + "\nparse.buildParsers<{ T: T }>();")])
    return out


def error_or_answer_projects(r, n):
    """assignability questions in which one property decides the answer and another makes the engine give up with an error (an
    operation it does not support): whether the compiler emits code or a diagnostic must not depend on which it meets first"""
    out = []
    bad = ["(Record<string, number> & Record<number, number>) | string", "(Record<string, boolean> & Record<number, string>) | number"]
    for i in range(n):
        k = r.randrange(2, 6)
        keys = r.sample(["a", "b", "c", "d", "e", "f", "g", "h", "k", "m", "q", "z"], k)
        decider, thrower = keys[0], keys[1]
        fa = ["%s: string" % decider, "%s: %s" % (thrower, r.choice(bad))] + ["%s: boolean" % x for x in keys[2:]]
        fb = ["%s: number" % decider, "%s: %s" % (thrower, "string")] + ["%s: boolean" % x for x in keys[2:]]
        r.shuffle(fa); r.shuffle(fb)
        src = "type A = { %s };\ntype B = { %s };\nexport type T = A extends B ? \"yes\" : \"no\";\nparse.buildParsers<{ T: T }>();" % ("; ".join(fa), "; ".join(fb))
        out.append([("entry.ts", src)])
    return out


def check(run):
    ok = run.prove("Props.C10", THEOREMS, ["Props/C10.vo"])
    common.ensure_harness()
    quick = run.tier == "quick"
    r = random.Random(run.seed + 1000)
    g = tsgen.TsGen(run.seed + 1001)
    # ---- static part of the tie: every HashMap iteration site is one the model accounts for
    p = subprocess.run(["python3", os.path.join(common.VERIF, "tools/hashmap_sites.py")], capture_output=True, text=True)
    found = {(s["file"], s["text"]): s for s in json.loads(p.stdout)["sites"]}
    unexpected = [v for k, v in found.items() if k not in EXPECTED_SITES]
    # ---- dynamic part
    projects = []
    for i in range(60 if quick else 2400):
        decls, parsers = g.forced_program(i) if i % 3 == 0 else g.program()
        files, _ = tsgen.split_program(decls, parsers, r)
        projects.append(files)
    projects += diag_projects(r, 40 if quick else 1500)
    projects += mapped_projects(r, 24 if quick else 900)
    projects += multi_clause_projects(r, 18 if quick else 600)
    projects += error_or_answer_projects(r, 16 if quick else 400)
    runs = 5 if quick else 8
    jobs, meta = [], []
    for pi, files in enumerate(projects):
        for k in range(runs):
            fs = list(files)
            if k % 2 == 1:
                r.shuffle(fs)
            jobs.append({"files": [[n, t] for n, t in fs], "entry": "entry.ts", "string_formats": [], "number_formats": [], "lazy": k % 3 == 2,
                         # the first run of every project compiles it three times in one process (the last time on another thread)
                         "repeat": 3 if k == 0 else 1})
            meta.append(pi)
    res = common.run_compile(jobs)
    by_proj = collections.defaultdict(list)
    for pi, rr in zip(meta, res):
        by_proj[pi].append(json.dumps({"outcome": rr.get("outcome"), "code": rr.get("code"), "diags": rr.get("diags"),
                                       "emit_error": rr.get("emit_error")}, sort_keys=True))
    fails = []
    for pi, rr in zip(meta, res):
        if rr.get("repeat_differs"):
            fails.append(("output-differs-between-compilations-in-one-process", {"files": dict(projects[pi]), "first": {"outcome": rr.get("outcome"), "code": rr.get("code"), "diags": rr.get("diags")},
                                                                                 "later": rr["repeat_differs"]}))
    for pi, outs in by_proj.items():
        if len(set(outs)) > 1:
            variants = collections.Counter(outs)
            fails.append(("output-differs-between-runs", {"files": dict(projects[pi]), "runs": runs,
                                                          "distinct_outputs": [json.loads(o) for o in list(variants)[:3]]}))
    cov = run.coverage
    cov["evaluations"] = len(jobs)
    cov["distinct_nontrivial"] = len(projects)
    cov["rule"] = ("multi-file projects (random layouts) and diagnostics-heavy projects (several failing exports behind namespace "
                   "imports, several unresolved names) and mapped types over several literal keys (per-key errors; semantic value types over "
                   "recursive types), each compiled %d times in fresh processes (fresh hash seeds) with shuffled file "
                   "registration order and eager/lazy parsing, once of them three times within one process; outputs compared byte for byte" % runs)
    cov["correspondence"]["HashMap iteration sites in beff-core/src vs the sites the model accounts for"] = {
        "cases": len(found), "disagreements": len(unexpected),
        "sites": [{"file": v["file"], "line": v["line"], "text": v["text"], "status": EXPECTED_SITES.get(k, "UNEXPECTED")} for k, v in found.items()]}
    cov["spec_checks"]["byte-identical code and diagnostics across processes and orders"] = {
        "projects": len(projects), "compilations": len(jobs), "failures": len(fails),
        "outcomes": dict(collections.Counter(rr.get("outcome") for rr in res))}
    cov["samples"] = [{"files": dict(projects[-1])}]
    cov["trusted_base"] = [
        "Coq 8.16.1 kernel; no axioms", "the order oracle ranges over all permutations of a map's entries (names unique)",
        "tools/hashmap_sites.py is a syntactic, conservative scan for iteration over HashMap-typed bindings",
        "cross-process behaviour is observed (fresh processes = fresh SipHash seeds), not provable in Gallina"]
    known = common.load_known("C10")
    for kf in known:
        if kf.get("kind") == "fixed":
            files = [("entry.ts", 'import * as NS from "./m0";\nexport type T = typeof NS;\nparse.buildParsers<{ T: T }>();'),
                     ("m0.ts", 'export const a = foo();\nexport const b = bar();\nexport const c = new Baz();\nexport const d = 1 + 2;')]
            rr = cstage.compile_projects([files] * 12)
            if len({json.dumps(x.get("diags")) for x in rr}) > 1:
                fails.append(("fixed-finding-returned:" + kf["class"], {"files": dict(files)}))
    if not ok:
        run.violation("proof", {"what": run.proof_broken, "theorems": THEOREMS}, no_input=not fails)
    for i, (kind, payload) in enumerate(fails[:5]):
        run.violation("spec-%d-%s" % (i, kind.replace(":", "_")), dict(payload, clause=kind))
    if unexpected and not fails:
        run.violation("correspondence", {
            "what": "the set of HashMap iteration sites no longer matches the sites the model accounts for; no project with "
                    "run-dependent output was found", "unexpected_sites": unexpected}, no_input=True)


def replay(d):
    print(d)
    return 0
