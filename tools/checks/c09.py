"""C09 — splitting declarations across modules does not change the result."""
import collections
import random
from lib import common, cstage, tsgen
from lib.vals import *
from checks.c01 import parse_canon_val

THEOREMS = ["C09_refuted_sanitised_paths_collide", "C09_kept_apart_except_known", "C09_nonvacuous"]
IMPORTS = "From Beff Require Import Model.Names."


def check(run):
    ok = run.prove("Props.C09", THEOREMS, ["Props/C09.vo"])
    common.ensure_harness()
    quick = run.tier == "quick"
    g = tsgen.TsGen(run.seed + 900)
    r = random.Random(run.seed + 901)
    n = 150 if quick else 6000
    progs, splits = [], []
    for i in range(n):
        decls, parsers = g.forced_program(i) if i % 4 == 0 else g.program()
        progs.append((decls, parsers))
        files, desc = tsgen.split_program(decls, parsers, r)
        splits.append((files, desc))
    # same-named types in different files, referenced side by side
    same = []
    POOL = ["lib/a", "lib/b", "x-y", "x_y", "m1", "deep/er/c", "models/user", "models/admin", "user", "a/x", "a/y", "b/x", "b/y"]
    LAYOUTS = [["models/user", "models/admin", "user"], ["a/x", "a/y", "b/x", "b/y"], ["a/x", "b/x", "a/y"], ["deep/er/c", "deep/c", "c"],
               ["lib/a", "lib/b", "a"]]
    for i in range(40 if quick else 1500):
        if i % 3 == 2:
            fs = list(r.choice(LAYOUTS)); r.shuffle(fs)
        else:
            fs = r.sample(POOL, r.choice([2, 2, 3, 4]))
        ts_ = [g.obj(2, []) for _ in fs]
        names = ["P", "Q", "R", "S"][:len(fs)]
        imports = " ".join('import {X as X%d} from "./%s";' % (k + 1, f) for k, f in enumerate(fs))
        shape = ", ".join("%s: X%d" % (nm, k + 1) for k, nm in enumerate(names))
        files = [("entry.ts", "%s\nparse.buildParsers<{ %s }>();" % (imports, shape))] + \
                [(f + ".ts", "export type X = %s;" % tsgen.ts(t)) for f, t in zip(fs, ts_)]
        single = [("entry.ts", "\n".join("export type X%d = %s;" % (k + 1, tsgen.ts(t)) for k, t in enumerate(ts_)) +
                   "\nparse.buildParsers<{ %s }>();" % shape)]
        same.append((single, files, fs, ""))
    # values: typeof of constants reached through default / named / namespace / re-exported bindings
    values = []
    for i in range(40 if quick else 500):
        kname = r.choice(["K", "TAG", "key0"])
        lit = r.choice(["k", "tag", "v1"])
        fields = []
        for key in r.sample(["a", "b", "c", "d"], r.randrange(1, 4)):
            fields.append("%s: %s" % (key, r.choice([kname, "1", '"s"', "{ n: %s }" % kname, "[%s, 2]" % kname, "true"])))
        objlit = "{ " + ", ".join(fields) + " }"
        decl_k = 'const %s = "%s" as const;' % (kname, lit)
        single = [("entry.ts", "%s\nconst V = %s;\nexport type X = typeof V;\nparse.buildParsers<{ X: X }>();" % (decl_k, objlit))]
        style = r.choice(["default_expr", "default_reexport", "named", "namespace", "default_as"])
        if style == "default_expr":
            multi = [("entry.ts", 'import D from "./m0";\nexport type X = typeof D;\nparse.buildParsers<{ X: X }>();'),
                     ("m0.ts", "%s\nexport default %s;" % (decl_k, objlit))]
        elif style == "default_reexport":
            multi = [("entry.ts", 'import { D } from "./barrel";\nexport type X = typeof D;\nparse.buildParsers<{ X: X }>();'),
                     ("barrel.ts", 'export { default as D } from "./m0";'),
                     ("m0.ts", "%s\nexport default %s;" % (decl_k, objlit))]
        elif style == "default_as":
            multi = [("entry.ts", 'import { default as D } from "./m0";\nexport type X = typeof D;\nparse.buildParsers<{ X: X }>();'),
                     ("m0.ts", "%s\nexport default %s;" % (decl_k, objlit))]
        elif style == "named":
            multi = [("entry.ts", 'import { V } from "./m0";\nexport type X = typeof V;\nparse.buildParsers<{ X: X }>();'),
                     ("m0.ts", "%s\nexport const V = %s;" % (decl_k, objlit))]
        else:
            multi = [("entry.ts", 'import * as NS from "./m0";\nexport type X = typeof NS.V;\nparse.buildParsers<{ X: X }>();'),
                     ("m0.ts", "%s\nexport const V = %s;" % (decl_k, objlit))]
        if r.random() < 0.4:
            # an unrelated declaration of the same name in the importing file must not capture the reference
            multi[0] = (multi[0][0], 'const %s = 42;\n' % kname + multi[0][1])
        values.append((single, multi, style))
    # a local type alias with the name of an imported value (TypeScript keeps the two name spaces apart: the type position sees the alias)
    for i in range(16 if quick else 200):
        nm = r.choice(["Tag", "Kind", "Mode"])
        lit = r.choice(["user", "admin", "m1"])
        single = [("entry.ts", 'const %s = "%s" as const;\ntype %s = typeof %s;\nexport type X = { t: %s; n: number };\nparse.buildParsers<{ X: X }>();' % (nm, lit, nm, nm, nm))]
        layout = i % 3
        if layout == 0:
            multi = [("entry.ts", 'import { %s } from "./values";\ntype %s = typeof %s;\nexport type X = { t: %s; n: number };\nparse.buildParsers<{ X: X }>();' % (nm, nm, nm, nm)),
                     ("values.ts", 'export const %s = "%s" as const;' % (nm, lit))]
        elif layout == 1:
            multi = [("entry.ts", 'import { %s } from "./values";\ntype %s = typeof %s;\nexport type X = { t: %s; n: number };\nparse.buildParsers<{ X: X }>();' % (nm, nm, nm, nm)),
                     ("values.ts", 'export * from "./legacy";\nexport const %s = "%s" as const;' % (nm, lit)),
                     ("legacy.ts", "export type %s = number;" % nm)]
        else:
            multi = [("entry.ts", 'import { X } from "./model";\nparse.buildParsers<{ X: X }>();'),
                     ("model.ts", 'import { %s } from "./values";\ntype %s = typeof %s;\nexport type X = { t: %s; n: number };' % (nm, nm, nm, nm)),
                     ("values.ts", 'export const %s = "%s" as const;' % (nm, lit))]
        values.append((single, multi, "local-type-shadows-imported-value"))
    # same-named enums of two directories, used through their members only (the emitted identifiers of the members must stay apart)
    for i in range(8 if quick else 120):
        nm = r.choice(["Status", "Kind", "Level"])
        m1, m2 = r.sample(["Open", "Closed", "Held"], 2)
        pa, pb = r.sample(["invoice", "parcel", "ticket"], 2)
        def enum(name, p): return 'enum %s { %s = "%s-%s", %s = "%s-%s" }' % (name, m1, p, m1.lower(), m2, p, m2.lower())
        use_whole = r.random() < 0.25
        single = [("entry.ts", "%s\n%s\nexport type X = { a: A%s.%s; b: B%s.%s%s };\nparse.buildParsers<{ X: X }>();"
                   % (enum("A" + nm, pa), enum("B" + nm, pb), nm, m1, nm, m1, ("; w: A%s" % nm) if use_whole else ""))]
        multi = [("entry.ts", 'import { TA } from "./billing/use";\nimport { TB } from "./shipping/use";\nexport type X = { a: TA["a"]; b: TB["b"]%s };\nparse.buildParsers<{ X: X }>();'
                  % ('; w: TA["w"]' if use_whole else "")),
                 ("billing/status.ts", "export " + enum(nm, pa)), ("shipping/status.ts", "export " + enum(nm, pb)),
                 ("billing/use.ts", 'import { %s } from "./billing/status";\nexport type TA = { a: %s.%s%s };' % (nm, nm, m1, ("; w: %s" % nm) if use_whole else "")),
                 ("shipping/use.ts", 'import { %s } from "./shipping/status";\nexport type TB = { b: %s.%s };' % (nm, nm, m1))]
        values.append((single, multi, "same-named-enums-used-through-members"))
    # barrels: a diamond of `export *` (the shared module is reached twice; names of a module listed after it must still be found),
    # export lists carrying a type and a value under one name, an explicit re-export next to an `export *` of the same name
    for i in range(18 if quick else 300):
        kind = i % 3
        t1, t2 = r.sample(["string", "number", "boolean"], 2)
        if kind == 0:
            decl_common = "export type Common = { id: %s };" % t1
            decl_lines = 'export type Line = { sku: string; qty: %s };\nexport const STATES = { open: "o", done: "d" } as const;' % t2
            use = "export type X = { c: Common; l: Line; s: typeof STATES };\nparse.buildParsers<{ X: X, L: Line }>();"
            single = [("entry.ts", decl_common + "\n" + decl_lines + "\n" + use)]
            order_lines = ['export * from "./common";', 'export * from "./lines";']
            index_lines = ['export * from "./user";', 'export * from "./order";']
            if r.random() < 0.3: order_lines.reverse()
            if r.random() < 0.3: index_lines.reverse()
            multi = [("entry.ts", 'import { Common, Line, STATES } from "./index";\n' + use),
                     ("index.ts", "\n".join(index_lines)), ("user.ts", 'export * from "./common";\nexport type User = { n: string };'),
                     ("order.ts", "\n".join(order_lines)), ("common.ts", decl_common), ("lines.ts", decl_lines)]
            style = "diamond-of-export-star"
        elif kind == 1:
            body = 'enum E { A = "a", B = "b" }\nconst K = "k" as const;\ntype K = { k: typeof K; n: %s };' % t1
            use = "export type X = { e: E; a: typeof E.A; k: K; v: typeof K };\nparse.buildParsers<{ X: X }>();"
            single = [("entry.ts", body + "\n" + use)]
            multi = [("entry.ts", 'import { E, K } from "./m0";\n' + use), ("m0.ts", body + "\nexport { E, K };")]
            if r.random() < 0.4:
                multi = [("entry.ts", 'import { E, K } from "./barrel";\n' + use), ("barrel.ts", 'export { E, K } from "./m0";'), ("m0.ts", body + "\nexport { E, K };")]
            style = "export-list-with-type-and-value"
        else:
            use = "export type X = { t: T; u: U };\nparse.buildParsers<{ X: X }>();"
            single = [("entry.ts", "export type T = %s;\nexport type U = %s[];\n" % (t2, t1) + use)]
            lines = ['export * from "./a";', 'export { T } from "./other";']
            if r.random() < 0.5: lines.reverse()
            multi = [("entry.ts", 'import { T, U } from "./b";\n' + use), ("b.ts", "\n".join(lines)),
                     ("a.ts", "export type T = %s;\nexport type U = %s[];" % (t1, t1)), ("other.ts", "export type T = %s;" % t2)]
            style = "explicit-re-export-shadows-export-star"
        values.append((single, multi, style))
    # unresolvable references must be diagnostics
    unresolved = []
    for i in range(20 if quick else 200):
        nm = r.choice(["Missing", "Nope", "T9"])
        kind = r.choice(["local", "import", "nofile"])
        if kind == "local":
            files = [("entry.ts", "export type A = { a: %s };\nparse.buildParsers<{ A: A }>();" % nm)]
        elif kind == "import":
            files = [("entry.ts", 'import { %s } from "./m0";\nexport type A = { a: %s };\nparse.buildParsers<{ A: A }>();' % (nm, nm)),
                     ("m0.ts", "export type Other = string;")]
        else:
            files = [("entry.ts", 'import { %s } from "./mock_could_not_resolve";\nexport type A = { a: %s };\nparse.buildParsers<{ A: A }>();' % (nm, nm))]
        unresolved.append(files)
    same = same + [(sg, ml, "value:" + st, "") for sg, ml, st in values]
    projects = [[("entry.ts", tsgen.program_ts(d, p))] for d, p in progs] + [f for f, _ in splits] \
        + [s for s, _, _, _ in same] + [m for _, m, _, _ in same] + unresolved
    res = cstage.compile_projects(projects)
    base, split_res = res[:n], res[n:2 * n]
    ns = len(same)
    same_single, same_multi = res[2 * n:2 * n + ns], res[2 * n + ns:2 * n + 2 * ns]
    unres = res[2 * n + 2 * ns:]
    dumps = cstage.dump_modules(base + same_single)
    items, meta = [], []
    pending_fail = []
    for i in range(n):
        a, b = base[i], split_res[i]
        if a.get("outcome") != "code" or b.get("outcome") != "code" or dumps[i] is None or "error" in dumps[i]:
            continue
        pv = cstage.values_for_parsers(dumps[i], run.seed + i, 10 if quick else 24)
        pv = {nm: v for nm, v in pv.items() if nm in (b.get("decoders") or [])}
        items += [(a["code"], pv, []), (b["code"], pv, [])]
        meta.append(("split", i))
    for j in range(ns):
        a, b = same_single[j], same_multi[j]
        d = dumps[n + j]
        if a.get("outcome") == "code" and b.get("outcome") != "code":
            pending_fail.append(("split-project-does-not-compile", {"single_file": same[j][0][0][1], "files": dict(same[j][1]),
                                                                    "outcome": b.get("outcome"), "diags": (b.get("diags") or [])[:2]}))
        if a.get("outcome") != "code" or b.get("outcome") != "code" or d is None or "error" in d:
            continue
        pv = cstage.values_for_parsers(d, run.seed + 7000 + j, 12)
        items += [(a["code"], pv, []), (b["code"], pv, [])]
        meta.append(("same", j))
    ev = cstage.eval_modules(items)
    known = common.load_known("C09")
    listed = {k["class"] for k in known if k.get("kind") == "known"}
    fails, in_known = list(pending_fail), collections.Counter()
    judged = 0
    for k, (kind, i) in enumerate(meta):
        ea, eb = ev[2 * k], ev[2 * k + 1]
        if kind == "split":
            desc = {"single_file": projects[i][0][1], "layout": splits[i][1], "files": dict(splits[i][0])}
        else:
            desc = {"single_file": same[i][0][0][1], "files": dict(same[i][1])}
        if "error" in ea or "error" in eb:
            fails.append(("module-does-not-load", dict(desc, single=ea.get("error"), multi=eb.get("error"))))
            continue
        for name in ea:
            judged += 1
            va, vb = ea[name]["validate"], eb[name]["validate"]
            if va != vb:
                vals = items[2 * k][1][name]
                j = next(x for x in range(len(va)) if va[x] != vb[x])
                if kind == "same" and "identifier_collision_after_sanitising" in listed and \
                        isinstance(same[i][2], list) and {"x-y", "x_y"} <= set(same[i][2]):
                    in_known["identifier_collision_after_sanitising"] += 1
                else:
                    fails.append(("validators-differ-from-the-single-file-program",
                                  dict(desc, parser=name, value=val_canon(vals[j]), single=va[j], multi=vb[j])))
    for i in range(n):
        a, b = base[i], split_res[i]
        if a.get("outcome") == "code" and b.get("outcome") != "code":
            fails.append(("split-project-does-not-compile", {"single_file": projects[i][0][1], "layout": splits[i][1],
                                                             "files": dict(splits[i][0]), "outcome": b.get("outcome"),
                                                             "diags": (b.get("diags") or [])[:2], "panic": b.get("panic")}))
    for files, rr in zip(unresolved, unres):
        if rr.get("outcome") != "diagnostics":
            fails.append(("unresolvable-reference-not-reported", {"files": dict(files), "outcome": rr.get("outcome"), "code": (rr.get("code") or "")[:300]}))
    # ---- the identifiers of the emitted module vs Model/Names.v (ts_identifier over all named types of the project)
    from checks.c01 import name_map
    exprs, emeta = [], []
    for which, rr, files in [("split", b, splits[i][0]) for i, b in enumerate(split_res)] + \
                            [("same", b, same[j][1]) for j, b in enumerate(same_multi)]:
        if rr.get("outcome") != "code": continue
        keys = [k for k, _ in rr.get("named_ir") or []]
        if not keys or any("<" in k or "::" not in k for k in keys): continue
        nm = name_map(keys, rr["code"])
        if nm is None: continue
        # an enum member `Enum.Member` is named after its enum's address, followed by `__Member`
        addrs = [(f, n.split(".", 1)[0]) for f, n in (k.split("::", 1) for k in keys)]
        members = [("__" + k.split("::", 1)[1].split(".", 1)[1]) if "." in k.split("::", 1)[1] else "" for k in keys]
        alls = "[" + "; ".join("mkAddr %s %s" % (coq_str(f), coq_str(n)) for f, n in addrs) + "]"
        exprs.append('concat_str "," (map (fun a => ts_identifier a %s) %s)' % (alls, alls))
        emeta.append((which, dict(files), keys, [nm[k] for k in keys], members))
    ident_disagree = []
    for (which, files, keys, emitted, members), out in zip(emeta, common.run_coq_cases(IMPORTS, exprs, tag="C09")):
        model_ids = [x + m for x, m in zip(out.split(","), members)]
        if model_ids != emitted:
            ident_disagree.append({"files": files, "named_types": keys, "emitted_identifiers": emitted, "model_identifiers": model_ids})
        if len(set(emitted)) != len(emitted) and not ("identifier_collision_after_sanitising" in listed and
                                                     any(f.replace("-", "_") in [g_.replace("-", "_") for g_ in files if g_ != f] for f in files)):
            fails.append(("two-named-types-share-one-identifier", {"files": files, "named_types": keys, "emitted_identifiers": emitted}))
    cov = run.coverage
    cov["evaluations"] = judged + len(unres)
    cov["distinct_nontrivial"] = sum(1 for k, _ in meta if k == "split")
    cov["rule"] = ("random programs split over 1-3 modules with named / type-only / namespace imports, renamed imports and export-star "
                   "barrels, compared with the single-file program on validate() over type-directed values; same-named types in two files "
                   "referenced side by side; unresolvable references must yield diagnostics")
    cov["correspondence"]["Model/Names.v ts_identifier vs emitted identifiers"] = {
        "cases": len(emeta), "disagreements": len(ident_disagree),
        "distribution": {"projects with same-named types": sum(1 for w, *_ in emeta if w == "same"),
                         "files per same-named project": dict(collections.Counter(len(f) - 1 for w, f, *_ in emeta if w == "same"))}}
    cov["spec_checks"]["multi-file project == single-file program"] = {
        "parsers_judged": judged, "unresolved_projects": len(unres),
        "failures": dict(collections.Counter(k for k, _ in fails)), "failures inside listed classes": dict(in_known),
        "layouts": dict(collections.Counter(x.split(":")[-1] for _, d in splits for x in d.split(",") if x))}
    cov["samples"] = [{"single_file": projects[0][0][1], "layout": splits[0][1], "files": dict(splits[0][0])}]
    cov["trusted_base"] = [
        "Coq 8.16.1 kernel; no axioms", "Model/Names.v models to_valid_ts_identifier / min_file_path_that_differs / ts_identifier only; "
        "import/export binding (bind_exports.rs, frontend walkers) is observed through H-compile, not modelled",
        "import specifiers are resolved by the harness rule ./x -> x.ts (the host's resolver is outside the property)"]
    for kf in known:
        w = eval(kf["witness"], {"__builtins__": {}}, {})
        if "multi" in w:
            # a split project against its single-file form: the split one must compile to validators with the same answers
            rs = cstage.compile_projects([w["single"], w["multi"]])
            failing = rs[0].get("outcome") == "code" and rs[1].get("outcome") != "code"
            if rs[0].get("outcome") == "code" and rs[1].get("outcome") == "code":
                vals = [parse_canon_val(x) for x in w.get("values", [])]
                es = cstage.eval_modules([(rs[0]["code"], {w["parser"]: vals}, []), (rs[1]["code"], {w["parser"]: vals}, [])])
                failing = "error" in es[1] or ("error" not in es[0] and es[0][w["parser"]]["validate"] != es[1][w["parser"]]["validate"])
            if kf.get("kind") == "known" and failing:
                run.known("class=%s %s" % (kf["class"], kf["what"]))
                cov["known_findings_reproduced"].append(kf["class"])
            if kf.get("kind") == "fixed" and failing:
                fails.append(("fixed-finding-returned:" + kf["class"], {"single_file": w["single"][0][1], "files": dict(w["multi"]),
                                                                         "split_outcome": rs[1].get("outcome"), "diagnostics": rs[1].get("diags")}))
            continue
        if kf.get("kind") == "known":
            files = [("entry.ts", 'import {X as X1} from "./a-b"; import {X as X2} from "./a_b";\nparse.buildParsers<{ P: X1, Q: X2 }>();'),
                     ("a-b.ts", "export type X = { a: string };"), ("a_b.ts", "export type X = { b: number };")]
            rr = cstage.compile_projects([files])[0]
            if rr.get("outcome") == "code":
                e = cstage.eval_modules([(rr["code"], {"P": [OBJ([("a", S("x"))])]}, [])])[0]
                if "error" not in e and e["P"]["validate"] == ["f"]:
                    run.known("class=%s %s" % (kf["class"], kf["what"]))
                    cov["known_findings_reproduced"].append(kf["class"])
    if not ok:
        run.violation("proof", {"what": run.proof_broken, "theorems": THEOREMS}, no_input=not fails)
    for i, (kind, payload) in enumerate(fails[:5]):
        run.violation("spec-%d-%s" % (i, kind), dict(payload, clause=kind))
    if ident_disagree and not fails:
        run.violation("correspondence", {
            "what": "correspondence stream 'Model/Names.v ts_identifier vs emitted identifiers' no longer checks (%d projects); no project "
                    "behaving differently from its single-file program was found" % len(ident_disagree), "first": ident_disagree[0]}, no_input=True)


def replay(d):
    print(d)
    return 0
