"""C14 — watch-mode rebuilds depend on the current file contents only, not on the edit history."""
import collections
import json
import random
from lib import common
from lib.vals import coq_str, coq_list

THEOREMS = ["C14_every_rebuild_answers_like_a_fresh_process", "C14_cache_stays_coherent",
            "C14_refuted_when_a_failed_parse_keeps_the_old_module", "C14_refuted_for_created_modules", "C14_nonvacuous"]
IMPORTS = "From Beff Require Import Model.Cases."
SETTINGS = {"string_formats": [], "number_formats": []}


# ---------------------------------------------------------------- projects and their variants
def variants_of_module(r, name, others):
    """texts for one non-entry module: (text, kind) with kind in valid / unresolvable / broken; the exported type is <Name>"""
    T = name.upper()
    leafs = ["string", "number", "boolean", '"x"', "Array<string>", "{ k: number }", "null"]
    out = []
    a, b = r.sample(leafs, 2)
    out.append(("export type %s = { v: %s };" % (T, a), "valid"))
    out.append(("export type %s = { v: %s; w?: %s };" % (T, a, b), "valid"))
    # the same program, other comments / layout (the syntax tree differs in spans only)
    out.append(("/** about %s */\nexport type %s = { v: %s };" % (T, T, a), "valid"))
    out.append(("/** changed words */\nexport type %s = { v: %s };" % (T, a), "valid"))
    out.append(("export type %s = {\n  /** the v */\n  v: %s\n};" % (T, a), "valid"))
    out.append(("export type %s = {\n  /** the v, again */\n  v: %s\n};" % (T, a), "valid"))
    out.append(("\n\n\nexport type   %s   =   { v: %s };" % (T, a), "valid"))
    if others:
        o = r.choice(others)
        O = o.upper()
        out.append(('import { %s } from "./%s";\nexport type %s = { v: %s; o: %s };' % (O, o, T, a, O), "valid"))
        out.append(('import { %s } from "./%s";\nexport type %s = Array<%s>;' % (O, o, T, O), "valid"))
        out.append(('import { Missing } from "./%s";\nexport type %s = { m: Missing };' % (o, T), "unresolvable"))
    out.append(("export type %s = { v: Nope };" % T, "unresolvable"))
    out.append(("\n\nexport type %s = {\n   v: Nope };" % T, "unresolvable"))
    out.append(('import { X } from "./mock_could_not_resolve";\nexport type %s = X;' % T, "unresolvable"))
    out.append(("export type Other = number;", "unresolvable"))           # the expected export is gone
    out.append(("export type %s = { v: %s " % (T, a), "broken"))
    out.append(("export type %s = = ;" % T, "broken"))
    out.append(("export typ %s { v: string };;; )" % T, "broken"))
    return out


def entry_variants(r, mods):
    out = []
    imps = "".join('import { %s } from "./%s";\n' % (m.upper(), m) for m in mods)
    out.append((imps + "parse.buildParsers<{ %s }>();" % ", ".join("%s: %s" % (m.upper(), m.upper()) for m in mods), "valid"))
    out.append((imps + "/** extra */\nexport type Local = { a: %s };\nparse.buildParsers<{ L: Local }>();" % mods[0].upper(), "valid"))
    one = mods[0]
    out.append(('import { %s } from "./%s";\nparse.buildParsers<{ One: %s }>();' % (one.upper(), one, one.upper()), "valid"))
    out.append((imps + "parse.buildParsers<{ U: Unknown }>();", "unresolvable"))
    out.append((imps + "parse.buildParsers<{ ", "broken"))
    return out


def gen_history(r, forced=None):
    mods = r.sample(["a", "b", "c"], r.randrange(1, 4))
    files = {}
    var = {}
    for i, m in enumerate(mods):
        var[m + ".ts"] = variants_of_module(r, m, mods[:i])       # imports only towards earlier modules: no cycles
    var["entry.ts"] = entry_variants(r, mods)
    kinds = {}
    for f, vs in var.items():
        t, k = vs[0] if r.random() < 0.7 else r.choice(vs)
        files[f] = t
        kinds[(f, t)] = k
    ops = []
    n = r.randrange(3, 10)
    names = list(var)
    if forced in ("created-module", "created-module-resaved") and len(mods) >= 1:
        # a module that does not exist yet when the session starts and is created later (the watcher does not see that;
        # the next change of a watched file triggers the rebuild)
        late = mods[-1] + ".ts"
        importers = [f for f in names if f != late and ('"./%s"' % mods[-1]) in files[f]]
        created = var[late][0][0]
        del files[late]
        ops = [["rebuild"], ["update", late, created]]
        if forced == "created-module-resaved":
            for f in importers: ops.append(["update", f, files[f]])
        else:
            other = [f for f in names if f != late and f not in importers]
            if other: ops.append(["update", other[0], r.choice([v for v in var[other[0]] if v[1] == "valid"])[0]])
        ops.append(["rebuild"])
        kinds[(late, created)] = "valid"
        n = r.randrange(0, 4)
    if forced == "broken-then-rebuild":
        f = r.choice(names)
        t = [v for v in var[f] if v[1] == "broken"][0]
        ops = [["rebuild"], ["update", f, t[0]], ["rebuild"]]
        kinds[(f, t[0])] = "broken"
    elif forced == "comment-only":
        f = r.choice([x for x in names if x != "entry.ts"])
        ops = [["update", f, var[f][2][0]], ["rebuild"], ["update", f, var[f][3][0]], ["rebuild"], ["update", f, var[f][4][0]],
               ["rebuild"], ["update", f, var[f][5][0]], ["rebuild"]]
    elif forced == "shifted-diagnostic":
        f = r.choice([x for x in names if x != "entry.ts"])
        u = [v for v in var[f] if v[1] == "unresolvable" and "Nope" in v[0]]
        ops = [["update", f, u[0][0]], ["rebuild"], ["update", f, u[1][0]], ["rebuild"]]
    for _ in range(n):
        if r.random() < 0.6:
            f = r.choice(names)
            t, k = r.choice(var[f])
            ops.append(["update", f, t])
        else:
            ops.append(["rebuild"])
    ops.append(["rebuild"])
    for f, vs in var.items():
        for t, k in vs:
            kinds[(f, t)] = k
    return files, ops, kinds


def barrel_history(r):
    """a name that reaches the entry point through `export *` barrels, first resolved by one rebuild, then moved: the file the
    barrel forwards to is edited (not the barrel) so that the name comes from somewhere else, disappears, or changes"""
    t1 = "{ a: string }"
    t2 = r.choice(["{ a: number; extra: boolean }", "{ b: string[] }", "string"])
    files = {"entry.ts": 'import { T } from "./barrel";\nparse.buildParsers<{ T: T }>();',
             "barrel.ts": 'export * from "./b";\nexport * from "./c";', "c.ts": "export type C0 = number;"}
    kind = r.randrange(4)
    if kind == 0:
        files.update({"b.ts": 'export { T } from "./v1";', "v1.ts": "export type T = %s;" % t1, "v2.ts": "export type T = %s;" % t2})
        edits = [[["update", "b.ts", 'export { T } from "./v2";']], [["update", "b.ts", 'export { T } from "./v1";']]]
    elif kind == 1:
        files.update({"b.ts": "export type T = %s;" % t1})
        edits = [[["update", "b.ts", "export type U = string;"], ["update", "c.ts", "export type T = %s;" % t2]],
                 [["update", "c.ts", "export type C0 = number;"], ["update", "b.ts", "export type T = %s;" % t1]]]
    elif kind == 2:
        files.update({"b.ts": "export type T = %s;" % t1})
        edits = [[["update", "b.ts", "export type U = string;"]], [["update", "b.ts", "export type T = %s;" % t2]]]
    else:
        files.update({"b.ts": "export type T = %s;\nexport const K = 1;" % t1})
        edits = [[["update", "b.ts", "export type T = %s" % t1 + " & ;"]], [["update", "b.ts", "export type T = %s;" % t2]]]
    ops = [["rebuild"]]
    for e in edits[: r.randrange(1, 3)]:
        ops += e + [["rebuild"]]
    kinds = {}
    for op in ops:
        if op[0] == "update": kinds[(op[1], op[2])] = "broken" if op[2].endswith("& ;") else "valid"
    return files, ops, kinds


def same_tail_history(r):
    """two files whose paths end alike (b.ts and sub/b.ts), one of them broken and repaired during the session: a cache that looks a
    file up by the tail of its path files the repaired text under the other name"""
    t1 = r.choice(["string", "{ a: string }", "number[]"])
    t2 = r.choice(["boolean", "{ n: number; m?: string }", "[string, number]"])
    t3 = r.choice(["null | string", "{ a: string; b: number }", "number"])
    files = {"entry.ts": 'import { A } from "./b";\nimport { Nested } from "./sub/b";\nparse.buildParsers<{ A: A, Nested: Nested }>();',
             "b.ts": "export type A = %s;" % t1, "sub/b.ts": "export type Nested = %s;" % t2}
    victim, name = r.choice([("b.ts", "A"), ("sub/b.ts", "Nested")])
    broken = "export type %s = %s & ;" % (name, t3)
    fixed = "export type %s = %s;" % (name, t3)
    ops = [["rebuild"], ["update", victim, broken], ["rebuild"], ["update", victim, fixed], ["rebuild"],
           ["update", "entry.ts", files["entry.ts"] + "\n"], ["rebuild"]]
    if r.random() < 0.5: ops = ops[1:]          # the victim is broken before anything was built
    kinds = {(victim, broken): "broken", (victim, fixed): "valid", ("entry.ts", files["entry.ts"] + "\n"): "valid"}
    return files, ops, kinds


def jsdoc_history(r):
    """a file with JSDoc descriptions (they reach the emitted validators) edited to texts of exactly the same byte length: a word of a
    comment replaced, two members swapped, a broken version of the same length in between"""
    words = ["years", "weeks", "hours", "miles", "units"]
    w0, w1, w2 = r.sample(words, 3)
    def model(w, swapped=False, broken=False):
        m1 = "  /** Age of the user in %s. */\n  age: number;" % w
        m2 = "  /** Display name, not empty */\n  name: string;"
        body = (m2 + "\n" + m1) if swapped else (m1 + "\n" + m2)
        txt = "/** A user of the system. */\nexport interface User {\n%s\n}" % body
        return txt.replace("interface", "interfac )") if broken else txt
    where = r.choice(["entry", "module"])
    if where == "module":
        files = {"entry.ts": 'import { User } from "./model";\nparse.buildParsers<{ User: User }>();', "model.ts": model(w0)}
        target = "model.ts"
        wrap = lambda t: t
    else:
        files = {"entry.ts": model(w0) + "\nparse.buildParsers<{ User: User }>();"}
        target = "entry.ts"
        wrap = lambda t: t + "\nparse.buildParsers<{ User: User }>();"
    steps = [model(w1), model(w1, swapped=True), model(w2, broken=True), model(w2), model(w0)]
    ops, kinds = [["rebuild"]], {}
    for t in r.sample(steps, r.randrange(2, 5)):
        text = wrap(t)
        ops += [["update", target, text], ["rebuild"]]
        kinds[(target, text)] = "broken" if "interfac )" in text else "valid"
    return files, ops, kinds


def frozen_importer(files, ops_before):
    """at this rebuild some file was created during the session after a file that imports it was last read by the session"""
    disk = dict(files)
    last_touch = {f: -1 for f in files}          # step at which the session last parsed the file (initial read = before step 0)
    created_at = {}
    for k, op in enumerate(ops_before):
        if op[0] != "update": continue
        if op[1] not in disk: created_at[op[1]] = k
        disk[op[1]] = op[2]
        last_touch[op[1]] = k
    for f, k in created_at.items():
        base = f[:-3]
        for g, text in disk.items():
            if g != f and ('"./%s"' % base) in text and last_touch.get(g, -1) < k:
                return True
    return False


def strip_result(x):
    return {k: x.get(k) for k in ("diags", "code", "error", "emitted", "panic")}


def conform_expr(files, ops, steps, kinds):
    tbl = lambda d: coq_list("(%s, %s)" % (coq_str(k), coq_str(v)) for k, v in d)
    osteps = []
    for op, st in zip(ops, steps):
        cache = [(k, v) for k, v in st["cache"]]
        if op[0] == "update":
            parses = kinds[(op[1], op[2])] != "broken"
            osteps.append("OUpdate %s %s %s %s" % (coq_str(op[1]), coq_str(op[2]), "true" if parses else "false", tbl(cache)))
        else:
            osteps.append("ORebuild %s" % tbl(cache))
    return "conform 0 %s [] %s" % (tbl(sorted(files.items())), coq_list(osteps))


def check(run):
    ok = run.prove("Props.C14", THEOREMS, ["Props/C14.vo"])
    common.ensure_harness()
    quick = run.tier == "quick"
    r = random.Random(run.seed + 1400)
    cov = run.coverage
    n = 240 if quick else 20000
    hist = []
    for i in range(n):
        forced = {0: "broken-then-rebuild", 1: "comment-only", 2: "shifted-diagnostic", 3: "created-module", 4: "created-module-resaved"}.get(i % 6)
        hist.append(barrel_history(r) if i % 12 == 11 else jsdoc_history(r) if i % 12 == 5 else same_tail_history(r) if i % 12 == 8
                    else gen_history(r, forced))
    known = common.load_known("C14")
    for kf in known:
        w = json.loads(kf["witness"])
        hist.append((w["files"], w["ops"], {(op[1], op[2]): w["kinds"].get(op[2], "valid") for op in w["ops"] if op[0] == "update"}))
    jobs = [{"id": i, "files": f, "entry": "entry.ts", "settings": SETTINGS, "ops": ops} for i, (f, ops, _) in enumerate(hist)]
    res = common.run_session(jobs)
    fails, exprs, eidx = [], [], []
    rebuilds = differing_outcomes = 0
    outcome_kinds = collections.Counter()
    op_hist = collections.Counter()
    reproduced = []
    listed = {k["class"] for k in known if k.get("kind") == "known"}
    in_known = collections.Counter()
    for i, ((files, ops, kinds), rr) in enumerate(zip(hist, res)):
        desc = {"files": files, "ops": ops}
        if "steps" not in rr:
            fails.append(("session-crashed", dict(desc, result=rr)))
            continue
        seen = set()
        for k, (op, st) in enumerate(zip(ops, rr["steps"])):
            if op[0] == "update":
                op_hist["update:" + kinds.get((op[1], op[2]), "?")] += 1
                continue
            op_hist["rebuild"] += 1
            rebuilds += 1
            s, f = strip_result(st["session"]), strip_result(st["fresh"])
            kind = "panic" if f.get("panic") else "code" if f.get("code") else "diagnostics"
            outcome_kinds[kind] += 1
            key = json.dumps(f, sort_keys=True)
            if key not in seen:
                seen.add(key)
            if s != f:
                what = "code" if (s.get("code") != f.get("code")) else "diagnostics"
                if i >= n:
                    reproduced.append(known[i - n])
                elif "import_resolution_frozen_in_cached_importer" in listed and frozen_importer(files, ops[:k]):
                    in_known["import_resolution_frozen_in_cached_importer"] += 1
                else:
                    fails.append(("rebuild-differs-from-fresh-process", dict(desc, step=k, differs_in=what, session=s, fresh=f)))
                break
        differing_outcomes += 1 if len(seen) > 1 else 0
        exprs.append(conform_expr(files, ops, rr["steps"], kinds))
        eidx.append(i)
    cq = common.run_coq_cases(IMPORTS, exprs, tag="C14")
    disagree = []
    for i, out in zip(eidx, cq):
        if out != "conforms":
            files, ops, _ = hist[i]
            disagree.append(("session steps vs Model/Session.v", {"files": files, "ops": ops, "model": out,
                                                                  "caches": [st["cache"] for st in res[i]["steps"]]}))
    cov["evaluations"] = rebuilds
    cov["distinct_nontrivial"] = differing_outcomes
    cov["rule"] = ("random projects (entry + 1-3 modules importing earlier ones) and histories of 4-18 steps (update f with one of its "
                   "valid / unresolvable / not-parsing variants, or rebuild), plus forced families: not-parsing update between rebuilds, "
                   "comment-only and layout-only edits (JSDoc of an exported type or property), a diagnostic whose position shifts; every "
                   "rebuild is compared with a fresh thread given the same disk (code, diagnostics, emitted diagnostics); non-trivial = "
                   "the history's rebuilds have at least two different answers")
    cov["correspondence"]["observed cache after every step vs the step relation of Model/Session.v (conform, evaluated in Coq)"] = {
        "cases": len(exprs), "disagreements": len(disagree),
        "distribution": {"steps": dict(op_hist), "fresh_outcomes": dict(outcome_kinds)}}
    cov["spec_checks"]["every rebuild equals the fresh-process answer"] = {
        "histories": len(hist), "rebuilds": rebuilds, "failures": dict(collections.Counter(k for k, _ in fails)),
        "failures inside listed classes": dict(in_known)}
    cov["samples"] = [{"files": hist[1][0], "ops": hist[1][1]}]
    cov["trusted_base"] = [
        "Coq 8.16.1 kernel, vm_compute; no axioms",
        "the theorem is parametric in parse (parse_and_bind) and extract (beff_core::extract) and assumes extract depends on the file manager "
        "only through the answers it gets (hypothesis of the theorem); get_existing_file is only asked about files fetched in the same run",
        "the session model (cache = file -> text its module was parsed from) is tied to packages/beff-wasm/src/lib.rs by the hook "
        "cached_sources() after every step (feature beff_verif); the hook substitutes the JavaScript host (disk, import resolution, "
        "diagnostic sink) — ts-node/bundler.ts itself (chokidar, ts.resolveModuleName, its resolvedCache) is not executed",
        "a fresh process is a new thread (the cache is thread_local); the set of file names never changes during a history, as in watch mode"]
    for kf in known:
        if kf.get("kind") == "fixed" and kf in reproduced:
            run.violation("fixed-finding-returned-" + kf["class"], {"witness": kf["witness"]})
        if kf.get("kind") == "known" and kf in reproduced:
            run.known("class=%s %s" % (kf["class"], kf["what"]))
            cov["known_findings_reproduced"].append(kf["class"])
    if not ok:
        run.violation("proof", {"what": run.proof_broken, "theorems": THEOREMS}, no_input=not fails)
    for i, (kind, payload) in enumerate(fails[:4]):
        run.violation("spec-%d-%s" % (i, kind), dict(payload, clause=kind))
    if disagree and not fails:
        run.violation("correspondence", {
            "what": "correspondence stream '%s' no longer checks (%d histories); no history violating C14 was found" % (disagree[0][0], len(disagree)),
            "first": disagree[0][1]}, no_input=True)


def replay(d):
    print(d)
    return 0
