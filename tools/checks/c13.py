"""C13 — hash256 is a structural fingerprint of the validator, computed as real SHA-256."""
import collections
import random
from lib import common, rstage, gen
from lib.vals import *

THEOREMS = ["C13_writer_is_sha256", "C13_constants_are_fips", "C13_nist_vectors", "C13_hash256_is_sha256_of_encoding",
            "C13_frame_bytes_distinct", "C13_property_order", "C13_mapping_order", "C13_format_order",
            "C13_metadata_invisible", "C13_hash32_property_order", "C13_refuted_alias",
            "C13_equal_streams_accept_the_same_values", "C13_disagreeing_validators_are_hashed_from_different_bytes",
            "C13_framing_is_a_prefix_code", "C13_injectivity_nonvacuous", "C13_active_names_restored",
            "C13_hash256_terminates_on_recursive_types", "C13_termination_nonvacuous"]
IMPORTS = "From Beff Require Import Model.Cases Proofs.C13Inj."


# ---------------------------------------------------------------- the fragment of C13_equal_streams_accept_the_same_values
def refs_in(r):
    out = []
    def walk(x):
        if isinstance(x, (tuple, list)):
            if len(x) == 2 and x[0] == "Ref" and isinstance(x[1], str):
                out.append(x[1])
            else:
                for y in x: walk(y)
    walk(r)
    return out


def ranks_of(env):
    """rank of every named type along the reference graph (0 = refers to nothing); None for a name on or above a cycle"""
    table = dict(env)
    rank, busy = {}, set()
    def go(n):
        if n in rank: return rank[n]
        if n in busy or n not in table: return None
        busy.add(n)
        rs = [go(m) for m in refs_in(table[n])]
        busy.discard(n)
        rank[n] = None if any(x is None for x in rs) else (1 + max(rs) if rs else 0)
        return rank[n]
    for n, _ in env: go(n)
    return rank


def fragment_expr(env, rt):
    rk = ranks_of(env)
    top = [rk.get(n) for n in refs_in(rt)]
    n = 0 if any(x is None for x in top) else (1 + max(top) if top else 1)
    ranks = coq_list("(%s, %d%%nat)" % (coq_str(k), v if v is not None else 0) for k, v in sorted(rk.items()))
    return "in_fragment %s %s %d%%nat %s" % (env_coq(env), ranks, n, rt_coq(rt))


# ---------------------------------------------------------------- tree transformations (meaning-preserving)
def map_rt(f, r):
    t = r[0]
    if t == "Tuple": r2 = (t, [map_rt(f, x) for x in r[1]], None if r[2] is None else map_rt(f, r[2]))
    elif t in ("AllOf", "AnyOf"): r2 = (t, [map_rt(f, x) for x in r[1]])
    elif t in ("Array", "Set", "Optional"): r2 = (t, map_rt(f, r[1]))
    elif t == "Map": r2 = (t, map_rt(f, r[1]), map_rt(f, r[2]))
    elif t == "Disc":
        r2 = (t, [map_rt(f, x) for x in r[1]], r[2], [(k, map_rt(f, x)) for k, x in r[3]], [(k, map_rt(f, x)) for k, x in r[4]])
    elif t == "Object": r2 = (t, [(k, map_rt(f, x)) for k, x in r[1]], [(map_rt(f, a), map_rt(f, b)) for a, b in r[2]])
    elif t == "Meta": r2 = (t, r[1], map_rt(f, r[2]))
    else: r2 = r
    return f(r2)


def shuffle_orders(rnd):
    def f(r):
        t = r[0]
        if t == "Object":
            ps = list(r[1]); rnd.shuffle(ps); return (t, ps, r[2])
        if t == "Disc":
            m = list(r[3]); rnd.shuffle(m); sm = list(r[4]); rnd.shuffle(sm); return (t, r[1], r[2], m, sm)
        if t in ("StringFmt", "NumberFmt"):
            fs = list(r[1]); rnd.shuffle(fs); return (t, fs)
        return r
    return f


def add_meta(rnd):
    def f(r):
        if r[0] not in ("Optional", "Meta") and rnd.random() < 0.3:
            return ("Meta", rnd.choice(["doc", "another comment"]), r)
        return r
    return f


def rename(mapping):
    def f(r):
        if r[0] == "Ref": return ("Ref", mapping.get(r[1], r[1]))
        return r
    return f


def recursive_reachable(env, rt):
    envd = dict(env)
    def refs(r): return {n[1] for n in rt_nodes(r) if n[0] == "Ref"}
    seen, stack = set(), list(refs(rt))
    onpath = False
    # a cycle exists among names reachable from rt
    graph = {k: refs(v) & set(envd) for k, v in envd.items()}
    reach = set()
    todo = list(refs(rt) & set(envd))
    while todo:
        n = todo.pop()
        if n in reach: continue
        reach.add(n); todo += list(graph[n])
    def cyc(n, path):
        if n in path: return True
        return any(cyc(m, path | {n}) for m in graph[n])
    return any(cyc(n, set()) for n in reach)


def variants(c, rnd):
    env, rt = c["env"], c["rt"]
    out = []
    f = shuffle_orders(rnd)
    out.append(("property/mapping/format order", [(k, map_rt(f, v)) for k, v in env], map_rt(f, rt), True))
    g = add_meta(rnd)
    out.append(("descriptions added", [(k, map_rt(g, v)) for k, v in env], map_rt(g, rt), True))
    if env:
        names = [k for k, _ in env]
        m = {k: "Z" + k[::-1] + "q" for k in names}
        h = rename(m)
        env2 = [(m[k], map_rt(h, v)) for k, v in env]
        rnd.shuffle(env2)
        out.append(("named types renamed", env2, map_rt(h, rt), False))
        # alias boundary: a new name for one of the named types, used at some of its references
        target = rnd.choice(names)
        def al(r):
            if r[0] == "Ref" and r[1] == target and rnd.random() < 0.7: return ("Ref", "Alias0")
            return r
        env3 = [(k, map_rt(al, v)) for k, v in env] + [("Alias0", ("Ref", target))]
        out.append(("alias boundary introduced", env3, map_rt(al, rt), True))
    return out


def mutants(c, g):
    """single-field changes that alter behaviour (for the 'different behaviour => different digest' clause)"""
    rnd = g.r
    out = []
    def flip_optional(r):
        if r[0] == "Object" and r[1]:
            i = rnd.randrange(len(r[1])); k, x = r[1][i]
            ps = list(r[1]); ps[i] = (k, x[1] if x[0] == "Optional" else ("Optional", x)); return ("Object", ps, r[2])
        return r
    def drop_rest(r):
        if r[0] == "Tuple": return ("Tuple", r[1], None if r[2] is not None else ("Any",))
        return r
    def change_const(r):
        if r[0] == "Const" and isinstance(r[1], str): return ("Const", r[1] + "x")
        if r[0] == "AnyOfConsts" and r[1]: return ("AnyOfConsts", list(r[1])[:-1])
        if r[0] == "Typeof": return ("Typeof", {"string": "number", "number": "boolean", "boolean": "string"}[r[1]])
        return r
    def drop_index(r):
        if r[0] == "Object" and r[2]: return ("Object", r[1], r[2][:-1])
        return r
    def swap_format_kind(r):
        # the same format names on the other base type: StringFormat<"short"> accepts "a", NumberFormat<"short"> accepts nothing
        if r[0] == "StringFmt": return ("NumberFmt", r[1])
        if r[0] == "NumberFmt": return ("StringFmt", r[1])
        return r
    def swap_container(r):
        if r[0] == "Array": return ("Set", r[1])
        if r[0] == "Set": return ("Array", r[1])
        if r[0] == "AllOf" and len(r[1]) >= 2: return ("AnyOf", r[1])
        return r
    for name, f in (("optionality", flip_optional), ("rest element", drop_rest), ("leaf", change_const), ("index signature", drop_index),
                    ("format kind", swap_format_kind), ("container kind", swap_container)):
        nodes = [n for n in rt_nodes(c["rt"])]
        # apply at exactly one node (the first where f changes something, chosen from a random rotation)
        done = [False]
        start = rnd.randrange(len(nodes))
        order = {id(n): i for i, n in enumerate(nodes[start:] + nodes[:start])}
        def once(r, f=f, done=done):
            if done[0]: return r
            r2 = f(r)
            if r2 != r: done[0] = True
            return r2
        m = map_rt(once, c["rt"])
        if done[0] and not any(n[0] == "Disc" for n in rt_nodes(c["rt"])):
            out.append((name, m))
    return out


def loose_cases(seed, n):
    """Literal unions whose members are loosely equal across JS types (1 / "1" / true, 0 / "0" / "" / false, null / "null");
    the mutants drop one member each and the values are the members themselves."""
    g = gen.Gen(seed)
    r = g.r
    pool = [I(0), I(1), I(2), "0", "1", "2", "", True, False, None, "true", "false", "null", "a"]
    groups = [[I(1), "1", True], [I(0), "0", "", False], [None, "null"], [I(2), "2"], [True, "true"], [False, "false"]]
    out = []
    for i in range(n):
        grp = r.choice(groups)
        cs = r.sample(grp, 2)
        for _ in range(r.randrange(0, 3)):
            c = r.choice(pool)
            if not any(type(c) == type(d) and c == d for d in cs): cs.append(c)
        r.shuffle(cs)
        wrap = r.choice(["none", "none", "prop", "array", "tuple"])
        def w(x, wrap=wrap):
            return x if wrap == "none" else (("Object", [("k", x)], []) if wrap == "prop" else (("Array", x) if wrap == "array" else ("Tuple", [x], None)))
        def wv(v, wrap=wrap):
            return v if wrap == "none" else (OBJ([("k", v)]) if wrap == "prop" else ARR([v]))
        rt = w(("AnyOfConsts", cs))
        extra = []
        for j in range(len(cs)):
            extra.append(("literal dropped from union", w(("AnyOfConsts", cs[:j] + cs[j + 1:]))))
        out.append({"env": [], "rt": rt, "vals": [wv(cst_val(c)) for c in cs], "source": "loose-literals", "mutants_extra": extra})
    return out


def unicode_cases(seed, n):
    """strings outside ASCII (the byte stream is the UTF-8 encoding with its byte length): a string and the string whose characters are
    the bytes of its encoding (mojibake) are different literals / keys with different behaviour"""
    r = __import__("random").Random(seed)
    pool = ["\u00e9", "\u00fc\u00f1", "\u0121", "\u65e5\u672c", "caf\u00e9", "\u00c4\u00a1", "na\u00efve", "\u00df", "\u20ac5", "\u00e9\u0121"]
    out = []
    for i in range(n):
        s0 = r.choice(pool)
        moji = s0.encode("utf-8").decode("latin-1")
        shape = r.choice(["const", "key", "nested"])
        def mk(x):
            if shape == "const": return ("Const", x)
            if shape == "key": return ("Object", [(x, ("Typeof", "string"))], [])
            return ("Object", [("k", ("Array", ("Const", x)))], [])
        def val(x):
            if shape == "const": return S(x)
            if shape == "key": return OBJ([(x, S("v"))])
            return OBJ([("k", ARR([S(x)]))])
        out.append({"env": [], "rt": mk(s0), "vals": [val(s0), val(moji)], "source": "non-ascii", "mutants_extra": [("string replaced by the bytes of its encoding", mk(moji))]})
    return out


def retarget_cases(seed, n):
    """Mutually recursive named object types; the mutant re-targets one back-reference (nested cycle ids matter)."""
    g = gen.Gen(seed)
    r = g.r
    out = []
    for i in range(n):
        k = r.randrange(2, 4)
        names = ["R%d" % j for j in range(k)]
        env = []
        for j, nm in enumerate(names):
            tgt = names[(j + 1) % k] if r.random() < 0.7 else r.choice(names)
            container = r.choice(["Array", "OptionalRef", "Union"])
            ref = ("Ref", tgt)
            inner = ("Array", ref) if container == "Array" else (("Optional", ref) if container == "OptionalRef" else ("AnyOf", [ref, ("Nullish", "null")]))
            env.append((nm, ("Object", [("k", ("Const", "c%d" % j)), ("xs", inner)], [])))
        # re-target one reference inside one body
        j = r.randrange(k)
        nm, body = env[j]
        old = [n for n in rt_nodes(body) if n[0] == "Ref"][0][1]
        new = r.choice([x for x in names if x != old])
        body2 = map_rt(lambda x: ("Ref", new) if x == ("Ref", old) else x, body)
        env2 = [(a, (body2 if a == nm else b)) for a, b in env]
        rt = ("Ref", names[0])
        vals = []
        for e in (env, env2):
            for _ in range(6):
                v = g.member(rt, e, depth=7)
                if v is not None and not gen.has_bad_keys(v):
                    vals.append(v)
        out.append({"env": env, "rt": rt, "vals": vals, "source": "retarget", "env2": env2})
    return out


def check(run):
    ok = run.prove("Props.C13", THEOREMS, ["Props/C13.vo"])
    common.ensure_harness()
    quick = run.tier == "quick"
    rnd = random.Random(run.seed + 1300)
    cov = run.coverage
    fails, disagree = [], []
    # ---- stream 1: the writer on raw write sequences
    sizes = [0, 1, 3, 7, 55, 56, 57, 63, 64, 65, 119, 120, 121, 127, 128, 129, 200]
    wjobs, wex, wseqs = [], [], []
    for i in range(120 if quick else 2000):
        writes = [[rnd.randrange(256) for _ in range(rnd.choice(sizes))] for _ in range(rnd.randrange(0, 6))]
        wseqs.append(writes)
        wjobs.append({"id": "w%d" % i, "rt": ["Any"], "ops": [{"op": "writer", "writes": ["".join("%02x" % b for b in w) for w in writes]}]})
        wex.append("run_writer %s" % coq_list(coq_list("%d%%N" % b for b in w) for w in writes))
    # ---- stream 2/3: encodings, digests, 32-bit hashes of validator trees and of their variants
    cases = rstage.load_corpus("C13")
    cases += rstage.gen_cases(run.seed + 1301, 160 if quick else 2500, 5, depth=3)
    cases += rstage.gen_forced(run.seed + 1302, 64 if quick else 1200, 5)
    cases += retarget_cases(run.seed + 1304, 60 if quick else 800)
    cases += loose_cases(run.seed + 1305, 40 if quick else 600)
    cases += unicode_cases(run.seed + 1306, 30 if quick else 400)
    g = gen.Gen(run.seed + 1303)
    jobs, exprs, meta = [], [], []
    for ci, c in enumerate(cases):
        items = [("original", c["env"], c["rt"], True)] + variants(c, rnd) + [("mutant:" + n, c["env"], m, False) for n, m in mutants(c, g)]
        items += [("mutant:" + n, c["env"], m, False) for n, m in c.get("mutants_extra", [])]
        if "env2" in c:
            items.append(("mutant:back-reference re-targeted", c["env2"], c["rt"], False))
        c["items"] = items
        for ii, (what, env, rt, _) in enumerate(items):
            ops = [{"op": "hash256rec"}, {"op": "hash"}]
            if what == "original" or what.startswith("mutant:"):
                ops += [{"op": "validate", "v": val_canon(v), "strict": False} for v in c["vals"]]
            jobs.append({"id": "%d.%d" % (ci, ii), "env": env_json(env), "rt": rt_json(rt), "ops": ops})
            exprs.append("run_hash256 %s %s" % (env_coq(env), rt_coq(rt)))
            exprs.append("run_hash32 %s %s" % (env_coq(env), rt_coq(rt)))
            meta.append((ci, ii))
    frag_exprs = [fragment_expr(c["env"], c["rt"]) for c in cases]
    js = common.run_driver(wjobs + jobs)
    cq = common.run_coq_cases(IMPORTS, wex + exprs + frag_exprs, tag="C13")
    frag = cq[len(wex) + len(exprs):]
    cq = cq[:len(wex) + len(exprs)]
    nw = len(wjobs)
    for i in range(nw):
        a = js[i][0]
        wd, nd = a.split("|")
        if wd != nd:
            fails.append(("writer-differs-from-node-crypto", {"writes": wseqs[i], "writer": wd, "node_crypto": nd}))
        if a != cq[i]:
            disagree.append(("writer", {"writes": wseqs[i], "impl": a, "model": cq[i]}))
    res = {}
    for k, (ci, ii) in enumerate(meta):
        out = js[nw + k]
        parts = out[0].split("|")
        r = {"bytes": parts[0], "writer": parts[1] if len(parts) > 1 else out[0], "crypto": parts[2] if len(parts) > 2 else "",
             "public": parts[3] if len(parts) > 3 else "", "hash": out[1], "validate": out[2:],
             "m256": cq[nw + 2 * k], "m32": cq[nw + 2 * k + 1]}
        res[(ci, ii)] = r
        what, env, rt, _ = cases[ci]["items"][ii]
        desc = {"variant": what, "env": repr(env), "rt": repr(rt)}
        if len(parts) == 4:
            if not (parts[1] == parts[2] == parts[3]):
                fails.append(("hash256-is-not-sha256-of-its-byte-stream", dict(desc, writer=parts[1], node_crypto=parts[2], hash256=parts[3])))
            if parts[0] + "|" + parts[1] != r["m256"]:
                disagree.append(("hash256 encoding", dict(desc, impl=out[0][:400], model=r["m256"][:400])))
        elif out[0] != r["m256"]:
            disagree.append(("hash256 encoding", dict(desc, impl=out[0][:400], model=r["m256"][:400])))
        if out[1] != r["m32"] and cases[ci].get("source") != "non-ascii":      # hash() reads UTF-16 code units; the model's strings are bytes
            disagree.append(("hash32", dict(desc, impl=out[1], model=r["m32"])))
    known = common.load_known("C13")
    listed = {k["class"] for k in known if k.get("kind") == "known"}
    in_known = collections.Counter()
    n_variants = n_mutants = 0
    for ci, c in enumerate(cases):
        o = res[(ci, 0)]
        for ii, (what, env, rt, same32) in enumerate(c["items"]):
            if ii == 0: continue
            v = res[(ci, ii)]
            desc = {"variant": what, "env": repr(c["env"]), "rt": repr(c["rt"]), "variant_env": repr(env), "variant_rt": repr(rt)}
            if what.startswith("mutant:"):
                n_mutants += 1
                if v["public"] == o["public"] and v["public"] and v["validate"] != o["validate"]:
                    fails.append(("different-behaviour-same-digest", dict(desc, digest=v["public"], values=[val_canon(x) for x in c["vals"]],
                                                                           validate_original=o["validate"], validate_mutant=v["validate"])))
                continue
            n_variants += 1
            if v["public"] != o["public"]:
                if what == "alias boundary introduced" and "alias_cycle_ids" in listed and recursive_reachable(env, rt) \
                        and v["m256"].split("|")[-1] == v["public"]:
                    in_known["alias_cycle_ids"] += 1
                else:
                    fails.append(("hash256-changes-under:" + what, dict(desc, original_hash256=o["public"], variant_hash256=v["public"])))
            if same32 and v["hash"] != o["hash"]:
                if what == "alias boundary introduced" and "alias_hash32_name_cut" in listed and recursive_reachable(env, rt) \
                        and v["m32"] == v["hash"]:
                    in_known["alias_hash32_name_cut"] += 1
                else:
                    fails.append(("hash32-changes-under:" + what, dict(desc, original_hash=o["hash"], variant_hash=v["hash"])))
    cov["evaluations"] = len(meta) + nw
    cov["theorem_fragment"] = {"theorem": "C13_equal_streams_accept_the_same_values",
                               "generated_trees": len(frag), "in_fragment (hfr, env_okb evaluated in Coq)": sum(1 for x in frag if x == "1"),
                               "outside": "recursive named types (cycle ids), template-literal patterns, literals outside the byte alphabet of the model"}
    cov["distinct_nontrivial"] = len({res[k]["public"] for k in res})
    cov["rule"] = ("(1) random write sequences with lengths around block/padding boundaries; (2) random + forced validator trees, "
                   "each with meaning-preserving variants (property/mapping/format order, descriptions, renamed named types, alias "
                   "boundaries) and single-field behaviour-changing mutants; non-trivial/distinct = distinct digests observed")
    cov["correspondence"]["Hash256Writer impl vs model vs node:crypto"] = {"cases": nw, "disagreements": sum(1 for d in disagree if d[0] == "writer")}
    cov["correspondence"]["hash256 byte stream + digest, hash() impl vs model"] = {
        "cases": len(meta), "disagreements": sum(1 for d in disagree if d[0] != "writer"),
        "distribution": {"constructors": rstage.histogram(cases)}}
    cov["spec_checks"]["C13 clauses on the implementation"] = {
        "variants_compared": n_variants, "mutants_compared": n_mutants,
        "failures": dict(collections.Counter(k for k, _ in fails)), "failures inside listed classes": dict(in_known)}
    cov["samples"] = [{"rt": repr(cases[0]["rt"]), "hash256": res[(0, 0)]["public"], "hash": res[(0, 0)]["hash"],
                       "bytes": res[(0, 0)]["bytes"][:120]}]
    cov["trusted_base"] = [
        "Coq 8.16.1 kernel, vm_compute; no axioms",
        "Model/Sha256.v: processChunk is shared by the writer model and the FIPS specification (validated by the NIST vectors in "
        "Props/C13.v and by node:crypto on every run); the theorem is about buffering, chunking, padding and the length field",
        "Model/Hash256Enc.v tied to codegen-v2.ts by the recorded byte stream of hash256()",
        "constants K, H0, frame bytes, hash seeds regenerated from hash.ts (Model/Generated.v) on every run",
        "compareConst is localeCompare: modelled as the ICU root order on the alphabet of the generated constants (Model/Hash256Enc.v collate_leb)",
        "strings of the model are byte strings: non-ASCII literals and keys are fed as their UTF-8 encoding, which is what hash256 writes; "
        "the 32-bit hash() of non-ASCII strings (UTF-16 code units) is not modelled",
        "SHA-256 collision resistance is not assumed: 'different behaviour => different digest' is checked on generated pairs only"]
    for k in known:
        w = eval(k["witness"], {"__builtins__": {}}, {"None": None, "True": True, "False": False})
        op = k.get("op", "hash256")
        outs = common.run_driver([{"id": "a", "env": env_json(w["env"]), "rt": rt_json(w["rt"]), "ops": [{"op": op}]},
                                  {"id": "b", "env": env_json(w["env"]), "rt": rt_json(w["rt2"]), "ops": [{"op": op}]}])
        differs = outs[0][0] != outs[1][0]
        if k.get("kind") == "known" and differs:
            run.known("class=%s %s" % (k["class"], k["what"]))
            cov["known_findings_reproduced"].append(k["class"])
        if k.get("kind") == "fixed" and differs:
            run.violation("fixed-finding-returned-" + k["class"], {"witness": k["witness"]})
    if not ok:
        run.violation("proof", {"what": run.proof_broken, "theorems": THEOREMS}, no_input=not fails)
    for i, (kind, payload) in enumerate(fails[:5]):
        run.violation("spec-%d-%s" % (i, kind.replace(":", "_").replace("/", "_").replace(" ", "_")), dict(payload, clause=kind))
    if disagree and not fails:
        run.violation("correspondence", {
            "what": "correspondence stream '%s' no longer checks (%d cases); no input violating C13 was found" % (disagree[0][0], len(disagree)),
            "first": disagree[0][1]}, no_input=True)


def replay(d):
    print(d)
    return 0
