"""C01 — generated validators accept exactly the values of the declared TypeScript type."""
import collections
import json
import random
from lib import common, cstage, tsgen, tsref, irs, gen
from lib.vals import *

THEOREMS = ["C01_literal_set_dispatch_is_union", "C01_discriminator_dispatch_is_union", "C01_printed_validator_means_the_IR", "C01_refuted_for_short_tuples", "C01_literal_union_validator_means_the_union", "C01_literal_union_nonvacuous",
            "C01_nonvacuous"]
IMPORTS = "From Beff Require Import Model.Cases."


# ---------------------------------------------------------------- programs
def forced(g, i):
    """families aimed at the printer's special cases and at the utility-type converters"""
    r = g.r
    k = i % 8
    leaf = lambda: g.leaf()
    if k == 0:
        # a discriminated union whose members carry index signatures / are intersections / named
        d = r.choice(["kind", "type"])
        ms = []
        for v in r.sample(["a", "b", "c"], r.randrange(2, 4)):
            props = [(d, False, ("lit", v))] + [(x, r.random() < 0.4, leaf()) for x in r.sample(["p", "q", "r"], r.randrange(0, 3))]
            if i % 16 >= 8:
                # a second key (sorted before the discriminator) whose string literal sets overlap between the members
                props.append(("c", False, ("union", [("lit", "ab"), ("lit", v + "1")]) if r.random() < 0.7 else ("lit", "ab")))
            idx = (("str",), r.choice([("num",), ("str",), ("bool",)])) if r.random() < 0.6 else None
            if idx is not None:
                # the declared properties must fit the index signature's value type in TypeScript; beff does not check, we keep it honest
                props = [(n, o, (idx[1] if n != d else t)) for n, o, t in props]
                if idx[1] != ("str",): idx = None if r.random() < 0.5 else (("tpl", [("const", "x_"), "string"]), idx[1])
            ms.append(("obj", props, idx))
        return [("alias", "U", [], ("union", ms))], [("U", ("ref", "U", [])), ("L", ("arr", ("ref", "U", [])))]
    if k == 1:
        items = r.choice([[("const", "id_"), "string"], ["number", ("const", "px")], ["string", ("const", "-"), "string"],
                          [("const", "v"), "number", ("const", "."), "number"], ["boolean"], [("const", "a"), "boolean", ("const", "b")]])
        return [("alias", "T", [], ("tpl", items))], [("T", ("ref", "T", [])), ("O", ("obj", [("k", False, ("ref", "T", []))], None))]
    if k == 2:
        base = ("obj", [("a", False, leaf()), ("b", True, leaf()), ("c", False, leaf())], None)
        u = r.choice([("partial", ("ref", "Base", [])), ("required", ("ref", "Base", [])), ("pick", ("ref", "Base", []), r.sample(["a", "b", "c"], 2)),
                      ("omit", ("ref", "Base", []), r.sample(["a", "b", "c"], 1)), ("keyof", ("ref", "Base", [])), ("index", ("ref", "Base", []), r.choice(["a", "b", "c"]))])
        return [("alias", "Base", [], base), ("alias", "T", [], u)], [("T", ("ref", "T", [])), ("Base", ("ref", "Base", []))]
    if k == 3 and (i // 8) % 2 == 1:
        # an interface that re-declares inherited properties: an optional one made required, a union narrowed to one member
        t1, t2 = leaf(), leaf()
        a = ("interface", "A", [], [("id", False, ("str",)), ("nick", True, t1), ("w", False, ("union", [t2, ("null",)]))])
        own = [("nick", False, t1)] + ([("w", False, t2)] if r.random() < 0.5 else []) + ([("b", r.random() < 0.5, leaf())] if r.random() < 0.5 else [])
        b = ("interface", "B", ["A"], own)
        c = ("alias", "C", [], ("obj", [("x", False, ("ref", "B", [])), ("l", False, ("arr", ("ref", "B", [])))], None))
        return [a, b, c], [("B", ("ref", "B", [])), ("C", ("ref", "C", [])), ("A", ("ref", "A", []))]
    if k == 3:
        a = ("interface", "A", [], [("a", False, leaf()), ("k", False, ("str",))])
        b = ("interface", "B", ["A"], [("b", r.random() < 0.5, leaf())])
        c = ("alias", "C", [], ("inter", [("ref", "B", []), ("obj", [("c", False, leaf())], None)]))
        return [a, b, c], [("B", ("ref", "B", [])), ("C", ("ref", "C", []))]
    if k == 4 and (i // 8) % 2 == 1:
        # optional index signatures: Partial<> of a record / of an object with an index signature (its values may be undefined)
        vt = r.choice([("num",), ("str",), ("bool",), ("lit", "x")])
        inner = r.choice([("record", ("str",), vt), ("obj", [("a", False, vt)], (("str",), vt)), ("obj", [], (("str",), vt)),
                          ("record", ("union", [("lit", "x"), ("lit", "y")]), vt)])
        return [("alias", "R", [], inner), ("alias", "P", [], ("partial", ("ref", "R", [])))], \
               [("P", ("ref", "P", [])), ("O", ("obj", [("p", False, ("ref", "P", [])), ("q", True, ("partial", inner))], None)), ("R", ("ref", "R", []))]
    if k == 4:
        rec = ("record", r.choice([("str",), ("union", [("lit", "x"), ("lit", "y")])]), leaf())
        return [("alias", "R", [], rec)], [("R", ("ref", "R", [])), ("M", ("map", ("str",), ("ref", "R", []))), ("S", ("set", leaf()))]
    if k == 5:
        g_ = ("alias", "Box", ["T"], ("obj", [("v", False, ("ref", "T", [])), ("n", True, ("ref", "Box", [("ref", "T", [])]))], None))
        return [g_], [("BS", ("ref", "Box", [("str",)])), ("BN", ("ref", "Box", [leaf()]))]
    if k == 6:
        e = ("enum", "E", [("A", "a"), ("B", "b")])
        return [e, ("alias", "T", [], ("obj", [("e", False, ("ref", "E", [])), ("t", False, ("tup", [leaf(), leaf()], leaf() if r.random() < 0.5 else None))], None))], \
               [("T", ("ref", "T", [])), ("E", ("ref", "E", []))]
    if (i // 8) % 3 == 0:
        # tuples whose tail accepts undefined, and intersections with a non-object member (the `string & {}` idiom)
        tail = r.choice([("union", [("num",), ("undefined",)]), ("any",), ("union", [("str",), ("null",)])])
        prim = r.choice([("str",), ("num",)])
        return [("alias", "Tu", [], ("tup", [("str",), tail], None)), ("alias", "Br", [], ("inter", [prim, ("obj", [], None)]))], \
               [("Tu", ("ref", "Tu", [])), ("Br", ("ref", "Br", [])), ("Loose", ("union", [("lit", "red"), ("ref", "Br", [])]))]
    if (i // 8) % 3 == 1:
        # intersections of inline object types that share a key: same type with different optionality, or a narrower type
        t = leaf()
        k2 = r.choice(["name", "tag"])
        first = ("obj", [("id", r.random() < 0.5, t), (k2, False, leaf())], None)
        second = ("obj", [("id", r.random() < 0.5, t if r.random() < 0.7 else leaf()), ("extra", r.random() < 0.5, leaf())], None)
        gen_ = ("alias", "Loose", ["T"], ("inter", [("ref", "T", []), ("obj", [("id", True, t)], None)]))
        return [("alias", "I", [], ("inter", [first, second])), gen_], \
               [("I", ("ref", "I", [])), ("L", ("ref", "Loose", [first])), ("Inline", ("inter", [second, first]))]
    return g.forced_program(i // 8)


def truncations(v):
    """shorter arrays (at the top and one level down)"""
    out = []
    if v[0] == "arr" and v[1]:
        out.append(ARR(v[1][:-1]))
    if v[0] == "obj":
        for i, (k, x) in enumerate(v[1]):
            if x[0] == "arr" and x[1]:
                out.append(OBJ(v[1][:i] + [(k, ARR(x[1][:-1]))] + v[1][i + 1:]))
    return out


def norm(r):
    """order-insensitive form of a validator tree; names are kept"""
    t = r[0]
    key = lambda x: json.dumps(x, sort_keys=True, default=str)
    if t == "Meta": return ("Meta", r[1], norm(r[2]))
    if t == "Tuple": return (t, [norm(x) for x in r[1]], None if r[2] is None else norm(r[2]))
    if t in ("AllOf", "AnyOf"): return (t, sorted((norm(x) for x in r[1]), key=key))
    if t in ("Array", "Set", "Optional"): return (t, norm(r[1]))
    if t == "Map": return (t, norm(r[1]), norm(r[2]))
    if t == "Disc":
        return (t, sorted((norm(x) for x in r[1]), key=key), r[2], sorted(((k, norm(x)) for k, x in r[3]), key=key),
                sorted(((k, norm(x)) for k, x in r[4]), key=key))
    if t == "Object": return (t, sorted(((k, norm(x)) for k, x in r[1]), key=key), [(norm(a), norm(b)) for a, b in r[2]])
    if t == "Regex": return (t, r[3])
    if t == "AnyOfConsts": return (t, sorted(r[1], key=key))
    if t in ("StringFmt", "NumberFmt"): return (t, list(r[1]))
    return r


def rename(r, m):
    if r[0] == "Ref": return ("Ref", m.get(r[1], r[1]))
    from checks.c13 import map_rt
    return map_rt(lambda x: ("Ref", m.get(x[1], x[1])) if x[0] == "Ref" else x, r)


def name_map(named_ir_keys, code):
    """IR keys (file::Name<args>) -> names of the emitted module: the namedRuntypes literal lists them in the same order"""
    import re
    m = re.search(r"const namedRuntypes = \{\n(.*?)\n\};", code, flags=re.S)
    names = re.findall(r'^    ("(?:[^"\\]|\\.)*"): ', m.group(1), flags=re.M) if m else []
    names = [json.loads(x) for x in names]
    if len(names) != len(named_ir_keys): return None
    return dict(zip(named_ir_keys, names))


def model_tree(j):
    """JSON printed by Model/ShowRt.v -> tuple syntax (the pattern of a template literal by its items)"""
    if j[0] == "Regex":
        items = [irs.tuple_item(i) for i in j[1]]
        return ("Regex", items, j[2], "^(?:" + tpl_source(items) + ")$")
    t = j[0]
    f = model_tree
    if t in ("Any", "Never", "Date", "BigInt"): return (t,)
    if t in ("Typeof", "Nullish", "TypedArray", "Ref"): return (t, j[1])
    if t in ("StringFmt", "NumberFmt"): return (t, list(j[1]))
    if t == "Const": return (t, cstage.cst_of(j[1]))
    if t == "AnyOfConsts": return (t, [cstage.cst_of(c) for c in j[1]])
    if t == "Tuple": return (t, [f(x) for x in j[1]], None if j[2] is None else f(j[2]))
    if t in ("AllOf", "AnyOf"): return (t, [f(x) for x in j[1]])
    if t in ("Array", "Set", "Optional"): return (t, f(j[1]))
    if t == "Map": return (t, f(j[1]), f(j[2]))
    if t == "Disc": return (t, [f(x) for x in j[1]], j[2], [(k, f(x)) for k, x in j[3]], [(k, f(x)) for k, x in j[4]])
    if t == "Object": return (t, [(k, f(x)) for k, x in j[1]], [(f(a), f(b)) for a, b in j[2]])
    if t == "Meta": return (t, j[1], f(j[2]))
    raise ValueError(j)


def check(run):
    ok = run.prove("Props.C01", THEOREMS, ["Props/C01.vo"])
    common.ensure_harness()
    quick = run.tier == "quick"
    g = tsgen.TsGen(run.seed + 100)
    n = 160 if quick else 3000
    nvals = 10 if quick else 24
    progs = []
    for i in range(n):
        progs.append(forced(g, i // 2) if i % 2 == 0 else g.program())
    sources = [tsgen.program_ts(d, p) for d, p in progs]
    res = cstage.compile_projects([[("entry.ts", s)] for s in sources])
    dumps = cstage.dump_modules(res)
    items, idx = [], []
    for i, r in enumerate(res):
        if r.get("outcome") == "code" and dumps[i] and "error" not in dumps[i]:
            pv = cstage.values_for_parsers(dumps[i], run.seed + i, nvals)
            pv = {nm: vs + [t for v in vs[:4] for t in truncations(v)] + [I(1), S("red"), S("zz")][: (3 if nm in ("Br", "Loose") else 0)]
                  for nm, vs in pv.items()}
            items.append((r["code"], pv, []))
            idx.append(i)
    ev = cstage.eval_modules(items)
    known = common.load_known("C01")
    listed = {k["class"] for k in known if k.get("kind") == "known"}
    in_known = collections.Counter()
    exprs, emeta = [], []
    fails, disagree = [], []
    judged_src = judged_ir = 0
    accept = reject = 0
    ir_hist = collections.Counter()
    for k, i in enumerate(idx):
        e = ev[k]
        if "error" in e:
            fails.append(("module-does-not-load", {"program": sources[i], "error": e["error"]}))
            continue
        r = res[i]
        named = [(a, b) for a, b in r["named_ir"]]
        decs = dict((a, b) for a, b in r["decoders_ir"])
        for _, b in named:
            for nd in irs.ir_nodes(b): ir_hist[nd[0]] += 1
        if any(nd[0] in ("Function", "StNot") for _, b in named + list(decs.items()) for nd in irs.ir_nodes(b)):
            continue
        ienv = irs.ienv_coq(named)
        decls, parsers = progs[i]
        ptypes = dict(parsers)
        discs = sorted({nd[2] for t in list(dumps[i]["parsers"].values()) + [b for _, b in dumps[i]["env"]] if t is not None
                        for nd in rt_nodes(t) if nd[0] == "Disc"})
        prefer = coq_list(coq_str(d) for d in discs)
        for name, x in e.items():
            vals = items[k][1][name]
            if name not in decs or not vals: continue
            irc = irs.ir_coq(decs[name])
            vl = coq_list(val_coq(v) for v in vals)
            exprs.append('concat_str ";" (map (run_rmember %s %s) %s)' % (ienv, irc, vl))
            exprs.append('concat_str ";" (map (run_printed_validate %s %s %s) %s)' % (ienv, prefer, irc, vl))
            exprs.append("run_print %s %s %s" % (ienv, prefer, irc))
            emeta.append((i, name, vals, x["validate"]))
        exprs.append("run_print_env %s %s" % (ienv, prefer))
        emeta.append((i, None, None, None))
    cq = common.run_coq_cases(IMPORTS, exprs, tag="C01", shard=40)
    pos = 0
    model_parsers, model_envs, printed_differs = collections.defaultdict(dict), {}, set()
    for (i, name, vals, impl) in emeta:
        decls, parsers = progs[i]
        if name is None:
            out = cq[pos]; pos += 1
            if out.startswith("!"):
                disagree.append(("printer model fails on the named types", {"program": sources[i], "model": out}))
                continue
            model_env = {a: model_tree(b) for a, b in json.loads(out, strict=False)}
            m = name_map([a for a, _ in res[i]["named_ir"]], res[i]["code"])
            if m is None:
                disagree.append(("printed named type", {"program": sources[i], "what": "the emitted named table does not line up with the IR's named types"}))
                continue
            denv = dict(dumps[i]["env"])
            model_envs[i] = [(m[a], rename(b, m)) for a, b in model_env.items() if a in m]
            for a, b in model_env.items():
                if a in m and m[a] in denv and norm(rename(b, m)) != norm(denv[m[a]]):
                    printed_differs.add(i)
                    disagree.append(("printed named type", {"program": sources[i], "name": a, "model": repr(norm(rename(b, m)))[:700],
                                                            "impl": repr(norm(denv[m[a]]))[:700]}))
            continue
        spec_ir, printed, ptree = cq[pos].split(";"), cq[pos + 1].split(";"), cq[pos + 2]
        pos += 3
        ty = dict(parsers)[name]
        desc0 = {"program": sources[i], "parser": name}
        if not ptree.startswith("!"):
            mt = model_tree(json.loads(ptree, strict=False))
            m = name_map([a for a, _ in res[i]["named_ir"]], res[i]["code"]) or {}
            model_parsers[i][name] = rename(mt, m)
            if norm(rename(mt, m)) != norm(dumps[i]["parsers"][name]):
                printed_differs.add(i)
                disagree.append(("printed parser", dict(desc0, model=repr(norm(rename(mt, m)))[:700], impl=repr(norm(dumps[i]["parsers"][name]))[:700])))
        else:
            disagree.append(("printer model fails", dict(desc0, model=ptree)))
        for q, v in enumerate(vals):
            a = impl[q]
            desc = dict(desc0, value=val_canon(v), validate=a)
            accept += a == "t"; reject += a == "f"
            src = tsref.judge(decls, ty, v)
            if src is not None:
                judged_src += 1
                if (a == "t") != src:
                    cls = classify(decls, ty, v, a)
                    if cls in listed: in_known[cls] += 1
                    else: fails.append(("validator-disagrees-with-source-type", dict(desc, source_membership=src)))
            if q < len(spec_ir) and not spec_ir[q].startswith("!"):
                judged_ir += 1
                if a != spec_ir[q]:
                    cls = classify(decls, ty, v, a)
                    if cls in listed: in_known[cls] += 1
                    else: fails.append(("validator-disagrees-with-meaning-of-IR", dict(desc, ir_membership=spec_ir[q])))
            if q < len(printed) and printed[q] != a:
                disagree.append(("validate(print(IR)) in the model vs implementation", dict(desc, model=printed[q])))
    # second chance: where the emitted tree differs from the model's print of the same IR, the values so far were directed by the
    # emitted tree itself (a validator that lost a part never gets values for that part); direct values by the model's tree instead
    # and judge the implementation on them against the source type
    second = 0
    items2, meta2 = [], []
    for i in sorted(printed_differs)[:60]:
        if i not in model_envs or not model_parsers.get(i): continue
        g2 = gen.Gen(run.seed + 7000 + i)
        pv = {}
        for name, mt in model_parsers[i].items():
            try:
                vs = [v for v in g2.values_for(mt, model_envs[i], nvals) if not gen.has_bad_keys(v)]
            except Exception:
                vs = []
            if vs: pv[name] = vs
        if pv:
            items2.append((res[i]["code"], pv, [])); meta2.append(i)
    for i, e2 in zip(meta2, cstage.eval_modules(items2)):
        if "error" in e2: continue
        decls, parsers = progs[i]
        for name, x in e2.items():
            ty = dict(parsers)[name]
            for v, a in zip(items2[meta2.index(i)][1][name], x["validate"]):
                src = tsref.judge(decls, ty, v)
                second += 1
                if src is not None and a in ("t", "f") and (a == "t") != src:
                    cls = classify(decls, ty, v, a)
                    if cls in listed: in_known[cls] += 1
                    else: fails.append(("validator-disagrees-with-source-type", {"program": sources[i], "parser": name, "value": val_canon(v),
                                                                                   "validate": a, "source_membership": src,
                                                                                   "values_directed_by": "the model's print of the IR"}))
    cov = run.coverage
    cov["spec_checks"]["second chance: values directed by the model's tree where the emitted tree differs"] = {"values_judged": second}
    cov["disagreements_sample"] = [{"stream": a, **{k: str(v)[:900] for k, v in b.items()}} for a, b in disagree[:6]]
    cov["evaluations"] = accept + reject
    cov["distinct_nontrivial"] = min(accept, reject)
    cov["rule"] = ("random and forced TypeScript programs (discriminated unions with index signatures / intersections / named members, "
                   "template literals, Partial/Required/Pick/Omit/keyof/indexed access, interfaces with extends, records, Map/Set, generics, "
                   "enums, tuples) compiled; every parser is run on type-directed values (members, one-step mutants, unrelated values) and "
                   "compared with (a) the reference membership of the source type (tools/lib/tsref.py), (b) rmember of the compiler's IR "
                   "(Model/Ir.v, in Coq); non-trivial = min(#accepted, #rejected)")
    cov["correspondence"]["print_runtype: Model/Printer.v on the IR vs the tree dumped from the emitted module (modulo member order)"] = {
        "cases": len(emeta), "disagreements": sum(1 for d in disagree if d[0].startswith("printed") or d[0].startswith("printer")),
        "distribution": {"ir_constructors": dict(ir_hist), "outcomes": dict(collections.Counter(r.get("outcome") for r in res))}}
    cov["correspondence"]["validate(print(IR)) evaluated in the model vs validate() of the emitted module"] = {
        "cases": accept + reject, "disagreements": sum(1 for d in disagree if d[0].startswith("validate(print"))}
    cov["spec_checks"]["membership"] = {"judged_against_source": judged_src, "judged_against_IR": judged_ir, "accepted": accept, "rejected": reject,
                                        "failures": dict(collections.Counter(k for k, _ in fails)), "failures inside listed classes": dict(in_known)}
    cov["samples"] = [{"program": sources[0]}]
    cov["trusted_base"] = [
        "Coq 8.16.1 kernel, vm_compute; no axioms",
        "the frontend (TypeScript -> IR) is not modelled: it is judged by the Python reference membership tools/lib/tsref.py on the generator's "
        "own AST (a test oracle); the IR -> validator tree step is Model/Printer.v, tied by comparing its output with the emitted module; the "
        "validator semantics is Model/Validate.v (tied by the C03/C11 streams and here)",
        "rmember (Model/Ir.v) is our reading of membership under beff's conventions; ${number} is read as TypeScript does in tsref.py and as "
        "the emitted pattern does in rmember"]
    for kf in known:
        w = eval(kf["witness"], {"__builtins__": {}}, {"None": None, "True": True, "False": False})
        rr = cstage.compile_projects([[("entry.ts", w["program"])]])[0]
        got = None
        if rr.get("outcome") == "code":
            e = cstage.eval_modules([(rr["code"], {w["parser"]: [parse_canon_val(w["value"])]}, [])])[0]
            if "error" not in e: got = e[w["parser"]]["validate"][0]
        bad = got is not None and got != w["expected"]
        if kf.get("kind") == "known" and bad:
            run.known("class=%s %s" % (kf["class"], kf["what"]))
            cov["known_findings_reproduced"].append(kf["class"])
        if kf.get("kind") == "fixed" and bad:
            run.violation("fixed-finding-returned-" + kf["class"], {"witness": kf["witness"], "validate": got})
    if not ok:
        run.violation("proof", {"what": run.proof_broken, "theorems": THEOREMS}, no_input=not fails)
    seen = collections.Counter()
    for kind, payload in fails:
        seen[kind] += 1
        if seen[kind] <= 3 and sum(min(v, 3) for v in seen.values()) <= 6:
            run.violation("spec-%s-%d" % (kind, seen[kind]), dict(payload, clause=kind))
    if disagree and not fails:
        run.violation("correspondence", {
            "what": "correspondence stream '%s' no longer checks (%d cases); no input violating C01 was found" % (disagree[0][0], len(disagree)),
            "first": disagree[0][1]}, no_input=True)


def classify(decls, ty, v, got):
    """known-finding classes, by what the type and the value contain"""
    def strings(x):
        if x[0] == "s": yield x[1]
        elif x[0] in ("arr", "set"):
            for y in x[1]: yield from strings(y)
        elif x[0] in ("obj", "map"):
            for a, b in x[1]:
                if not isinstance(a, str): yield from strings(a)
                yield from strings(b)
    if got in ("!CannotConvert", "!NotFunction"):
        return "discriminator_dispatch_throws"
    text = tsgen.ts(ty) + " " + " ".join(tsgen.decl_ts(d) for d in decls)
    if got == "t" and "[" in text and has_short_tuple(decls, ty, v):
        return "short_tuple_padded_with_undefined"
    if got == "f" and "& {" in text.replace("({", "{") and v[0] in ("s", "num", "b"):
        return "intersection_with_non_object_member_rejects_everything"
    has_tpl_number = "${number}" in tsgen.ts(ty) or any("${number}" in tsgen.decl_ts(d) for d in decls)
    if has_tpl_number and got == "f":
        import re
        if any(re.search(r"(^|[^0-9])[-+.]\d|\d[eE][-+]?\d|0[xXbBoO]|\d\.($|[^0-9])|^\s|\s$", s) for s in strings(v)):
            return "template_number_narrower_than_typescript"
    return None


def has_short_tuple(decls, ty, v):
    """does judging v against ty meet an array shorter than the tuple type it is checked against?"""
    ref = tsref.Ref(decls)
    hit = [False]
    orig = ref.member
    def member(t, x, depth=0):
        if t[0] == "tup" and x[0] == "arr" and len(x[1]) < len(t[1]):
            hit[0] = True
        return orig(t, x, depth)
    ref.member = member
    try:
        ref.member(ty, v)
    except Exception:
        pass
    return hit[0]


def replay(d):
    print(d)
    return 0
