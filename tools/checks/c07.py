"""C07 — semantically computed types reach code generation unchanged in meaning."""
import collections
import json
import random
from lib import common, typegen, semref, bdds, irs, cstage
from lib.vals import *

THEOREMS = ["C07_positive_basic_types_materialise_exactly", "C07_refuted_excluded_literal_sets", "C07_nonvacuous"]
IMPORTS = "From Beff Require Import Model.Cases."
STRUCT = ("Mapping", "List", "Map", "Set")


def object_members(sem, t, depth=0):
    """the object types a type is a union of (through references), or None"""
    t = semref.strip(t)
    if depth > 10: return None
    if t[0] == "Object": return [t]
    if t[0] == "Ref" and t[1] in sem.named: return object_members(sem, sem.named[t[1]], depth + 1)
    if t[0] == "AnyOf":
        out = []
        for x in t[1]:
            m = object_members(sem, x, depth + 1)
            if m is None: return None
            out += m
        return out
    return None


def gen_case(g, r, kind):
    env, names = g.env()
    if kind == "tuple-any-rest":
        pre = [g.leaf() for _ in range(r.randrange(1, 3))]
        a = ["AnyOf", [["Tuple", pre, ["Any"]], g.leaf(), g.ty(1, names)]]
        b = r.choice([g.leaf(), ["Number"], ["String"]])
        return env, ["diff", ["ty", a], ["ty", b]], ("diff", a, b)
    if kind == "tuple-index":
        # indexed access into tuples (with and without rest, alone or in a union of tuples) by literal indices around the prefix length
        def tup():
            pre = [g.leaf() for _ in range(r.randrange(1, 4))]
            return ["Tuple", pre, g.leaf() if r.random() < 0.7 else None]
        ts_ = [tup() for _ in range(r.choice([1, 1, 2]))]
        t = ts_[0] if len(ts_) == 1 else ["AnyOf", ts_]
        hi = max(len(x[1]) for x in ts_) + 1
        ks = sorted(r.sample(range(0, hi + 1), r.choice([1, 1, 2])))
        kt = typegen.lit_n(ks[0]) if len(ks) == 1 else ["AnyOf", [typegen.lit_n(k) for k in ks]]
        return env, ["index", ["ty", t], ["ty", kt]], ("tindex", ts_, ks)
    if kind in ("keyof", "index"):
        ms = [g.obj(2, names, keys=sorted(r.sample(["a", "b", "c", "k"], r.randrange(1, 4))), index=False) for _ in range(r.randrange(1, 3))]
        t = ms[0] if len(ms) == 1 else ["AnyOf", ms]
        if kind == "keyof":
            # some members also carry an index signature over numbers (or strings): its key type joins the declared names
            if r.random() < 0.45:
                for m in ms:
                    if r.random() < 0.7: m[2] = [r.choice([["Number"], ["Number"], ["String"]]), [True, g.leaf()]]
            return env, ["keyof", ["ty", t]], ("keyof", t, None)
        common_keys = set.intersection(*[set(k for k, _ in m[1]) for m in ms])
        if not common_keys:
            return env, ["keyof", ["ty", t]], ("keyof", t, None)
        ks = r.sample(sorted(common_keys), r.randrange(1, len(common_keys) + 1))
        kt = typegen.lit_s(ks[0]) if len(ks) == 1 else ["AnyOf", [typegen.lit_s(k) for k in ks]]
        return env, ["index", ["ty", t], ["ty", kt]], ("index", t, ks)
    a = g.ty(3, names)
    q = r.random()
    b = g.narrow(a, names) if q < 0.5 else g.ty(2, names)
    op = kind
    return env, [op, ["ty", a], ["ty", b]], (op, a, b)


def expected(sem, spec, v):
    op, a, b = spec
    if op in ("diff", "intersect", "union"):
        ma, mb = sem.member(a, v, False), sem.member(b, v, False)
        return {"diff": ma and not mb, "intersect": ma and mb, "union": ma or mb}[op]
    if op == "tindex":
        # the union, over the tuples and the indices, of the element type at that position (the rest type beyond the prefix)
        for tp in a:
            for k in b:
                et = tp[1][k] if k < len(tp[1]) else tp[2]
                if et is not None and sem.member(et, v, False): return True
        return False
    ms = object_members(sem, a)
    if ms is None: raise semref.Incomplete("keyof/index operand")
    if op == "keyof":
        def has_key(m):
            if v[0] == "s" and v[1] in set(k for k, _ in m[1]): return True
            if m[2] is not None:
                kt = semref.strip(m[2][0])
                if kt[0] == "Number" and v[0] == "num": return True
                if kt[0] == "String" and v[0] == "s": return True
            return False
        return bool(ms) and all(has_key(m) for m in ms)
    # indexed access: the union of the property types (an optional property may be nullish)
    for m in ms:
        d = dict((k, p) for k, p in m[1])
        for k in b:
            req, pt = d[k]
            if (not req and v in (NUL, U)) or sem.member(pt, v, False): return True
    return False

# ---------------------------------------------------------------- whole programs: several computed types over recursive operands
PAYLOADS = ["string", "number", "boolean", '"a" | "b"', "null"]
SHAPES = [("list", "{ next: %(n)s | null, v: %(p)s }"), ("tree", "{ l: %(n)s | null, r: %(n)s | null, v: %(p)s }"),
          ("cat", "{ v: %(p)s, sub: %(n)s[] }"), ("opt", "{ next?: %(n)s, v: %(p)s }")]
EXCLUDED = ["boolean", "string", "number", "null", '"zz"']


def recursive_program(r):
    """2-4 recursive named types of different shape / payload, each behind a computed type that must mean the operand again:
    Exclude<R | X, X> (X a primitive, disjoint from the object type R) or ({t: R, k: 1} | {t: R, k: 2})["t"]."""
    k = r.randrange(2, 5)
    decls, parsers, pairs = [], [], []
    for i in range(k):
        shape, tpl = r.choice(SHAPES)
        n = "R%d" % i
        decls.append("export type %s = %s;" % (n, tpl % {"n": n, "p": r.choice(PAYLOADS)}))
        q = r.random()
        if q < 0.7:
            x = r.choice(EXCLUDED)
            decls.append("export type X%d = Exclude<%s | %s, %s>;" % (i, n, x, x))
        elif q < 0.85:
            decls.append('export type X%d = ({ t: %s, k: 1 } | { t: %s, k: 2 })["t"];' % (i, n, n))
        else:
            decls.append("export type X%d = Exclude<{ root: %s } | number, number>;" % (i, n))
            decls.append("export type W%d = { root: %s };" % (i, n))
            pairs.append(("X%d" % i, "W%d" % i)); parsers += ["X%d" % i, "W%d" % i]
            continue
        pairs.append(("X%d" % i, n)); parsers += ["X%d" % i, n]
    src = 'import parse from "./parser";\n' + "\n".join(decls) + "\nexport default parse.buildParsers<{ %s }>();\n" % ", ".join("%s: %s" % (x, x) for x in parsers)
    return src, pairs


def intersection_program(r):
    """a computed type over an intersection of inline object types that share a key (same type, different optionality, or a
    narrower type on one side) must mean the object type a reader writes down by hand: Exclude<(A & B) | Z, Z> and
    (A & B)[k] against the merged object / the member type"""
    ty = r.choice(["string", "number", "boolean", '"a"'])
    other = r.choice(["boolean", "number"])
    shared = r.choice(["tag", "k", "id"])
    forms = [("%s: %s" % (shared, ty), "%s?: %s" % (shared, ty), "%s: %s" % (shared, ty)),        # required & optional = required
             ("%s?: %s" % (shared, ty), "%s: %s" % (shared, ty), "%s: %s" % (shared, ty)),
             ("%s?: %s" % (shared, ty), "%s?: %s" % (shared, ty), "%s?: %s" % (shared, ty))]
    fa, fb, fe = r.choice(forms[:2] if r.random() < 0.8 else forms)
    a = "{ x: string; %s; n: %s }" % (fa, other)
    b = "{ %s; note: boolean }" % fb
    e = "{ x: string; %s; n: %s; note: boolean }" % (fe, other)
    decls = ["export type X = %s & %s;" % (a, b), "export type Z = { z: 1 };", "export type C0 = Exclude<X | Z, Z>;",
             "export type E0 = %s;" % e]
    pairs = [("C0", "E0")]
    parsers = ["C0", "E0"]
    if r.random() < 0.5:
        decls += ['export type C1 = X["n"];', "export type E1 = %s;" % other]
        pairs.append(("C1", "E1")); parsers += ["C1", "E1"]
    src = 'import parse from "./parser";\n' + "\n".join(decls) + "\nexport default parse.buildParsers<{ %s }>();\n" % ", ".join("%s: %s" % (x, x) for x in parsers)
    return src, pairs


def program_stream(run, n, fails, cov):
    r = random.Random(run.seed + 707)
    progs = [intersection_program(r) if i % 4 == 3 else recursive_program(r) for i in range(n)]
    pknown = [k for k in common.load_known("C07") if "program" in json.loads(k["witness"])]
    for k in pknown:
        w = json.loads(k["witness"])
        progs.append((w["program"], [tuple(x) for x in w["pairs"]]))
    all_fails, fails = fails, []
    res = cstage.compile_projects([[("entry.ts", src)] for src, _ in progs])
    dumps = cstage.dump_modules(res)
    items, meta = [], []
    outcomes = collections.Counter()
    for i, ((src, pairs), rr) in enumerate(zip(progs, res)):
        out = rr.get("outcome")
        outcomes[out] += 1
        if out != "code":
            fails.append(("program-with-several-recursive-computed-types-does-not-compile",
                          {"program": src, "outcome": out, "panic": rr.get("panic"), "diagnostics": rr.get("diags"), "stderr": rr.get("stderr", "")[-300:]}))
            continue
        d = dumps[i]
        if d is None or "error" in d:
            fails.append(("emitted-module-does-not-load", {"program": src, "error": (d or {}).get("error")}))
            continue
        pv = cstage.values_for_parsers(d, run.seed + i, 14)
        # the computed type and its operand are judged on the union of their type-directed values
        for xn, rn in pairs:
            both = pv.get(xn, []) + pv.get(rn, [])
            pv[xn] = both; pv[rn] = both
        items.append((rr["code"], pv, []))
        meta.append(i)
    ev = cstage.eval_modules(items)
    judged = 0
    for k, i in enumerate(meta):
        src, pairs = progs[i]
        e = ev[k]
        if "error" in e:
            fails.append(("emitted-module-does-not-load", {"program": src, "error": e["error"]}))
            continue
        for xn, rn in pairs:
            judged += 1
            va, vb = e[xn]["validate"], e[rn]["validate"]
            if va != vb:
                vals = items[k][1][xn]
                j = next(x for x in range(len(va)) if va[x] != vb[x])
                fails.append(("computed-type-does-not-mean-its-operand", {"program": src, "computed": xn, "operand": rn,
                              "value": val_canon(vals[j]), "computed_type_accepts": va[j], "operand_accepts": vb[j]}))
    for kind, payload in fails:
        hit = [k for k in pknown if json.loads(k["witness"])["program"] == payload["program"]]
        if not hit:
            all_fails.append((kind, payload))
        for k in hit:
            if k.get("kind") == "known":
                run.known("class=%s %s" % (k["class"], k["what"]))
                cov["known_findings_reproduced"].append(k["class"])
            else:
                run.violation("fixed-finding-returned-" + k["class"], dict(payload, clause=kind))
    cov["spec_checks"]["programs with several computed types over different recursive operands"] = {
        "programs": n, "outcomes": dict(outcomes), "computed/operand pairs compared on values": judged}
    cov["samples"].append({"program": progs[0][0]})


def check(run):
    ok = run.prove("Props.C07", THEOREMS, ["Props/C07.vo"])
    common.ensure_harness()
    quick = run.tier == "quick"
    g = typegen.TypeGen(run.seed + 700)
    g.no_allof = True
    r = random.Random(run.seed + 701)
    n = 420 if quick else 40000
    kinds = ["diff", "diff", "intersect", "union", "keyof", "index", "tuple-any-rest", "diff", "tuple-index"]
    cases = [gen_case(g, r, kinds[i % len(kinds)]) for i in range(n)]
    known = [k for k in common.load_known("C07") if "program" not in json.loads(k["witness"])]
    for kf in known:
        w = json.loads(kf["witness"])
        cases.append((w["named"], w["expr"], tuple(w["spec"])))
    jobs = [{"id": i, "op": "ty_materialize", "named": env, "expr": expr} for i, (env, expr, spec) in enumerate(cases)]
    res = common.run_engine(jobs)
    listed = {k["class"] for k in known if k.get("kind") == "known"}
    in_known = collections.Counter()
    reproduced = set()
    fails, disagree = [], []
    judged = collections.Counter()
    exprs, emeta = [], []
    ops = collections.Counter()
    for i, ((env, expr, spec), rr) in enumerate(zip(cases, res)):
        desc = {"named": env, "expr": expr}
        wit_class = known[i - n]["class"] if i >= n else None
        ops[spec[0]] += 1
        def bad(kind, payload, cls=None):
            if wit_class is not None:
                reproduced.add((wit_class, kind))
            elif cls is not None and cls in listed:
                in_known[cls] += 1
            else:
                fails.append((kind, payload))
        if "ok" not in rr:
            bad("materialisation-panics-or-does-not-terminate", dict(desc, result=str(rr)[:300]))
            continue
        o = rr["ok"]
        if "err" in o:
            judged["materialisation refused"] += 1
            continue
        root, gen = o["root"], o["generated"]
        out_types = [root] + [x for _, x in gen]
        d2 = dict(desc, materialised=root, helper_types=gen)
        has_not = any(nd[0] in ("StNot", "Function") for t in out_types for nd in semref.nodes(t))
        has_optundef = any(nd[0] == "Undefined" for t in out_types for nd in semref.nodes(t))
        if has_not:
            bad("materialised-type-contains-a-construct-the-printer-cannot-print", d2, "excluded_literal_set_materialised_as_negation")
        names = [nm for nm, _ in gen]
        if len(set(names)) != len(names) or set(names) & {nm for nm, _ in env}:
            bad("helper-name-defined-more-than-once", d2)
        defined = set(names) | {nm for nm, _ in env} | {o["root_name"]}
        dangling = sorted({nd[1] for t in out_types for nd in semref.nodes(t) if nd[0] == "Ref"} - defined)
        if dangling:
            bad("materialised-type-refers-to-an-undefined-helper", dict(d2, names=dangling))
        same = o["same_type_after_reconversion"]
        if same is not True:
            if isinstance(same, dict) and not str(same.get("err", "")).startswith("recursive type"):
                judged["conversion back refused (unsupported comparison)"] += 1
            elif isinstance(same, dict):
                bad("materialised-type-cannot-be-converted-back", dict(d2, error=same.get("err")), "recursive_helper_type_cannot_be_converted_back")
            elif has_not:
                bad("not-the-same-type-after-reconversion", d2, "excluded_literal_set_materialised_as_negation")
            elif has_optundef:
                bad("not-the-same-type-after-reconversion", d2, "optional_property_comes_back_as_explicit_undefined")
            elif any(nd[0] == "AllOf" for t in out_types for nd in semref.nodes(t)):
                bad("not-the-same-type-after-reconversion", d2, "materialised_intersection_of_objects_does_not_convert_back")
            else:
                bad("not-the-same-type-after-reconversion", d2)
        sem = semref.Sem(env + gen + [[o["root_name"], root]], runtime=True)
        try:
            operands = [t for t in (spec[1], spec[2]) if isinstance(t, list) and t and isinstance(t[0], str)]
            if spec[0] == "tindex": operands = list(spec[1])
            uni = sem.universe(operands + [root])
            pool = []
            for t in operands + [root]:
                vs, _ = sem.enumerate(t, uni, 3, 25)
                pool += vs
            pool += sem._all(uni, 2, 20)
            if spec[0] == "keyof":
                pool += [S(k) for k in sorted(uni[2])] + [I(0), I(3)]       # the key names themselves are the values in question
            first_bad = None
            for v in pool:
                if expected(sem, spec, v) != sem.member(root, v, False):
                    first_bad = v
                    break
            judged["meaning compared on values"] += 1
            if first_bad is not None:
                bad("materialised-type-does-not-mean-the-computed-type",
                    dict(d2, value=val_canon(first_bad), computed_type_has_it=expected(sem, spec, first_bad),
                         materialised_type_has_it=sem.member(root, first_bad, False)),
                    "excluded_literal_set_materialised_as_negation" if has_not else None)
        except (semref.Incomplete, RecursionError, KeyError):
            judged["meaning not judged"] += 1
        st = o["sem"]
        if not any(p[0] in STRUCT for p in st["data"]) and not any(p[0] in ("VoidUndefined", "TypedArray") for p in st["data"]):
            exprs.append("show_ir_res (materialise %s)" % bdds.sem_coq(st))
            emeta.append((i, root))
    cq = common.run_coq_cases(IMPORTS, exprs, tag="C07")
    for (i, root), out in zip(emeta, cq):
        if norm_ir(json.loads(out, strict=False)) != norm_ir(root) if not out.startswith("!") else True:
            disagree.append(("materialisation of basic semtypes", {"expr": cases[i][1], "impl": root, "model": out[:600]}))
    cov = run.coverage
    cov["evaluations"] = len(cases)
    cov["distinct_nontrivial"] = judged["meaning compared on values"]
    cov["rule"] = ("semantic expressions over IR operands of the fragment (difference, intersection, union, keyof, indexed access into objects and into "
                   "tuples by literal indices around the prefix length; tuples with a "
                   "typed prefix and an any rest) evaluated by the engine and materialised with semtype_to_runtypes; each result is checked for "
                   "printability, helper names (unique, all defined), is_same_type after converting it back, and meaning: the computed type's "
                   "membership (from the operands) against the materialised type's membership on values enumerated from operands and result; "
                   "non-trivial = results whose meaning was compared")
    cov["correspondence"]["convert_to_schema_no_cache on semtypes without structural components: Model/Materialise.v vs the engine"] = {
        "cases": len(emeta), "disagreements": len(disagree), "distribution": {"operations": dict(ops)}}
    cov["spec_checks"]["materialised types"] = {"cases": len(cases), **dict(judged),
                                               "failures": dict(collections.Counter(k for k, _ in fails)),
                                               "failures inside listed classes": dict(in_known)}
    cov["samples"] = [{"expr": cases[0][1], "named": cases[0][0]}]
    program_stream(run, 60 if quick else 1500, fails, cov)
    cov["trusted_base"] = [
        "Coq 8.16.1 kernel, vm_compute; no axioms",
        "only the per-tag part of convert_to_schema_no_cache is modelled (Model/Materialise.v); mapping/list clauses, the memo of helper "
        "types, keyof and indexed access are judged on the implementation by tools/lib/semref.py (bounded value enumeration, testing)",
        "membership is read under beff's runtime conventions (null ~ undefined, an optional property may be nullish)"]
    for kf in known:
        hit = [k for c, k in reproduced if c == kf["class"]]
        want = json.loads(kf["witness"]).get("fails_with")
        if want is not None: hit = [k for k in hit if k == want]
        if kf.get("kind") == "known" and hit:
            run.known("class=%s %s" % (kf["class"], kf["what"]))
            cov["known_findings_reproduced"].append(kf["class"])
        if kf.get("kind") == "fixed" and hit:
            run.violation("fixed-finding-returned-" + kf["class"], {"witness": kf["witness"], "observed": hit})
    if not ok:
        run.violation("proof", {"what": run.proof_broken, "theorems": THEOREMS}, no_input=not fails)
    seen = collections.Counter()
    for kind, payload in fails:
        seen[kind] += 1
        if seen[kind] <= 2 and sum(min(v, 2) for v in seen.values()) <= 6:
            run.violation("spec-%s-%d" % (kind, seen[kind]), dict(payload, clause=kind))
    if disagree and not fails:
        run.violation("correspondence", {
            "what": "correspondence stream '%s' no longer checks (%d cases); no input violating C07 was found" % (disagree[0][0], len(disagree)),
            "first": disagree[0][1]}, no_input=True)


def norm_ir(t):
    """order-insensitive form of an IR type (unions are sets in the implementation)"""
    k = t[0]
    if k == "Tpl": return ["Tpl", t[1]]
    if k in ("AnyOf", "AllOf"): return [k, sorted((norm_ir(x) for x in t[1]), key=lambda x: json.dumps(x, sort_keys=True))]
    if k in ("StNot", "Array", "Set"): return [k, norm_ir(t[1])]
    if k == "Meta": return norm_ir(t[2])
    return t


def replay(d):
    print(d)
    return 0
