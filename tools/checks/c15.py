"""C15 — describe() prints TypeScript that compiles back to the same validator."""
import collections
import random
import re
from lib import common, cstage, rstage, tsgen, gen
from lib.vals import *

THEOREMS = ["C15_aliases_declared_once", "C15_describe_restores_active", "C15_children_complete", "C15_nonvacuous",
            "C15_describe_terminates_on_recursive_types", "C15_counting_terminates", "C15_printing_terminates",
            "C15_termination_nonvacuous"]
IMPORTS = "From Beff Require Import Model.Cases Proofs.C15Term."


def term_expr(env, rt):
    """the hypotheses of C15_describe_terminates_on_recursive_types for this case: reachable names in depth-first post-order (the
    only reference to a name printed in place is the edge it was discovered through, so post-order numbers are ranks)"""
    from checks.c13 import refs_in
    table = dict(env); order = []; seen = set()
    def visit(n):
        if n in seen or n not in table: return
        seen.add(n)
        for m in refs_in(table[n]): visit(m)
        order.append(n)
    for m in refs_in(rt): visit(m)
    ranks = coq_list("(%s, %d%%nat)" % (coq_str(n), i) for i, n in enumerate(order))
    rl = coq_list(coq_str(n) for n in order)
    return "term_check %s %s %s %s %d%%nat 40%%nat" % (env_coq(env), rt_coq(rt), ranks, rl, len(order) + 1)
PROTO_NAMES = ["valueOf", "toString", "constructor", "hasOwnProperty", "__proto__"]
DOCS = ["doc", "a */ b", "two\nlines", "x\n\ny */"]


# ---------------------------------------------------------------- stream A: validator trees (model correspondence)
def container_cases():
    """a named type recursive through each container, referenced once from the root (so that only the count taken by
    collectDescribeRefs inside the container makes it an alias)"""
    R = ("Ref", "R")
    wraps = {
        "array": ("Array", R), "set": ("Set", R), "map-key": ("Map", R, ("Typeof", "string")), "map-value": ("Map", ("Typeof", "string"), R),
        "tuple-prefix": ("Tuple", [R], None), "tuple-rest": ("Tuple", [("Typeof", "number")], R), "optional": ("Optional", R),
        "anyOf": ("AnyOf", [R, ("Nullish", "null")]), "allOf": ("AllOf", [R, ("Object", [], [])]),
        "index-value": ("Object", [], [(("Typeof", "string"), R)]), "index-key": ("Object", [], [(R, ("Typeof", "string"))]),
        "disc": ("Disc", [("Object", [("k", ("Const", "a")), ("r", ("Optional", R))], [])], "k",
                 [("a", ("Object", [("k", ("Const", "a")), ("r", ("Optional", R))], []))],
                 [("a", ("Object", [("k", ("Const", "a")), ("r", ("Optional", R))], []))]),
    }
    out = []
    for what, w in wraps.items():
        field = w if what == "optional" else ("Optional", w) if what in ("array",) else w
        body = ("Object", [("x", field)], [])
        for root in (R, ("Object", [("p", R)], []), ("Array", R)):
            out.append({"env": [("R", body)], "rt": root, "source": "container:" + what})
    for nm in PROTO_NAMES:
        body = ("Object", [("a", ("Array", ("Ref", nm)))], [])
        out.append({"env": [(nm, body)], "rt": ("Ref", nm), "source": "proto-name"})
        out.append({"env": [(nm, ("Object", [("b", ("Typeof", "string"))], []))],
                    "rt": ("Object", [("p", ("Ref", nm)), ("q", ("Ref", nm))], []), "source": "proto-name"})
    # named types without components (a primitive, a literal set, a builtin, the empty object), referenced once / twice / thrice
    leaves = [("Typeof", "string"), ("AnyOfConsts", ["red", "green"]), ("Date",), ("Object", [], []), ("Const", "x"), ("BigInt",),
              ("StringFmt", ["short"]), ("Regex", [("const", "id_"), ("string",)], "`id_${string}`", "(id_)(.*)")]
    for leaf in leaves:
        for n_refs in (1, 2, 3):
            props = [("p%d" % i, ("Ref", "Id")) for i in range(n_refs)]
            out.append({"env": [("Id", leaf)], "rt": ("Object", props, []), "source": "leaf-alias"})
        out.append({"env": [("Id", leaf), ("Pair", ("Tuple", [("Ref", "Id"), ("Ref", "Id")], None))],
                    "rt": ("Object", [("a", ("Ref", "Pair")), ("b", ("Array", ("Ref", "Pair")))], []), "source": "leaf-alias"})
    for keys in (["a-b", "1x", "", "ok", "$d", "with space", 'q"uote'],):
        out.append({"env": [], "rt": ("Object", [(k, ("Typeof", "string")) for k in keys], []), "source": "keys"})
    return out


def add_docs(rnd):
    def f(r):
        if r[0] not in ("Optional", "Meta") and rnd.random() < 0.25:
            return ("Meta", rnd.choice(DOCS), r)
        return r
    return f


def children(r):
    t = r[0]
    if t == "Tuple": return list(r[1]) + ([] if r[2] is None else [r[2]])
    if t in ("AllOf", "AnyOf", "Disc"): return list(r[1])
    if t in ("Array", "Set", "Optional"): return [r[1]]
    if t == "Map": return [r[1], r[2]]
    if t == "Object": return [x for _, x in r[1]] + [y for kv in r[2] for y in kv]
    return []


def occurrence_counts(rt, envd):
    """how often each name is referenced in the root and in the bodies of the names reachable from it (each body once)"""
    counts, visited = collections.Counter(), set()
    def go(r):
        while r[0] == "Meta": r = r[2]
        if r[0] == "Ref":
            counts[r[1]] += 1
            if r[1] in visited or r[1] not in envd: return
            visited.add(r[1]); go(envd[r[1]]); return
        for c in children(r): go(c)
    go(rt)
    return counts


def declared_aliases(text):
    return re.findall(r"^type ([^\s=]+) =", text, flags=re.M)


# ---------------------------------------------------------------- stream B: round trip through the compiler
def forced_programs(g, i):
    r = g.r
    k = i % 8
    leaf = g.leaf()
    if k == 0:
        w = r.choice(["Set<R>", "Map<string, R>", "Map<R, string>", "[number, ...Array<R>]", "[R, string]", "Array<R>", "(R | null)"])
        return "export type R = { \"v\": %s; \"x\"?: %s };\nparse.buildParsers<{ R: R, P: { \"p\": R }, L: Array<R> }>();" % (tsgen.ts(leaf), w)
    if k == 1:
        keys = r.sample(["a-b", "1x", "with space", "ok", "$d", "q\\\"uote", "ünï"], 3)
        return "export type K = { %s };\nparse.buildParsers<{ K: K }>();" % "; ".join('"%s"%s: %s' % (x, "?" if r.random() < 0.3 else "", tsgen.ts(g.leaf())) for x in keys)
    if k == 2:
        return "export type B = { \"n\": bigint; \"m\"?: (bigint | string) };\nparse.buildParsers<{ B: B, Raw: bigint }>();"
    if k == 3:
        nm = r.choice(["valueOf", "toString", "constructor", "hasOwnProperty"])
        return "export type %s = { \"a\": Array<%s>; \"v\": %s };\nparse.buildParsers<{ X: %s, Y: { \"p\": %s; \"q\": %s } }>();" % (nm, nm, tsgen.ts(leaf), nm, nm, nm)
    if k == 4 and (i // 8) % 2 == 1:
        # index / mapped members whose value is optional, alone in their object
        a, b = tsgen.ts(g.leaf()), tsgen.ts(g.leaf())
        return ("export type PD = Partial<Record<string, %s>>;\nexport type MO = { [K in string]?: %s };\n"
                "export type TP = Partial<Record<`x_${string}`, boolean>>;\nexport type RQ = Record<string, %s>;\n"
                "parse.buildParsers<{ PD: PD, MO: MO, TP: TP, RQ: RQ, W: { \"d\": PD } }>();") % (a, b, a)
    if k == 4:
        return "export type I = { [key: string]: %s };\nexport type J = Record<string, %s>;\nparse.buildParsers<{ I: I, J: J }>();" % (tsgen.ts(g.leaf()), tsgen.ts(g.leaf()))
    if k == 5 and (i // 8) % 2 == 0:
        return ("export type Id = %s;\nexport type Color = \"red\" | \"green\";\nexport type Edge = { \"from\": Id; \"to\": Id; \"c\"?: Color; \"d\": Array<Color> };\n"
                "parse.buildParsers<{ Edge: Edge, Ids: [Id, Id] }>();") % r.choice(["string", "number", "Date", "bigint"])
    if k == 5:
        return ("/** the a */\nexport type A = { /** field */ \"f\": %s; \"g\": A[] };\nexport type Sh = { \"s\": %s };\n"
                "parse.buildParsers<{ A: A, Two: { \"x\": Sh; \"y\": Sh; \"z\": A } }>();") % (tsgen.ts(g.leaf()), tsgen.ts(g.leaf()))
    if k == 6:
        return ("export type M1 = { \"k\": \"m1\"; \"to\"?: M2 };\nexport type M2 = { \"k\": \"m2\"; \"back\": Array<M1>; \"self\"?: M2 };\n"
                "parse.buildParsers<{ M1: M1, M2: M2, U: (M1 | M2) }>();")
    return "export type G<T> = { \"v\": T; \"n\"?: G<T> };\nparse.buildParsers<{ GS: G<string>, GN: G<%s> }>();" % tsgen.ts(g.leaf())


def norm(rt, env, path=(), sort_unions=False):
    """the regular tree of a validator: references unfolded (cut at the first repetition on the path), descriptions dropped"""
    t = rt[0]
    f = lambda x: norm(x, env, path, sort_unions)
    if t == "Meta": return f(rt[2])
    if t == "Ref":
        if rt[1] not in env: return ("Missing", rt[1])
        if rt[1] in path: return ("Rec", rt[1])
        return norm(env[rt[1]], env, path + (rt[1],), sort_unions)
    if t == "Tuple": return (t, [f(x) for x in rt[1]], None if rt[2] is None else f(rt[2]))
    if sort_unions and t in ("AnyOf", "AnyOfConsts", "Disc"):
        # the set of alternatives, whatever grouping the compiler chose (nested unions of inlined aliases, literal sets,
        # discriminator dispatch): these groupings change when describe() inlines a named member
        flat = []
        def add(m):
            if m[0] == "AnyOf":
                for x in m[1]: add(x)
            else:
                flat.append(m)
        if t == "AnyOfConsts":
            for c in rt[1]: flat.append(("Const", c))
        else:
            for x in rt[1]: add(f(x))
        flat = sorted({repr(m): m for m in flat}.values(), key=repr)
        return flat[0] if len(flat) == 1 else ("AnyOf", flat)
    if t == "AnyOf":
        return (t, [f(x) for x in rt[1]])
    if t == "AllOf": return (t, [f(x) for x in rt[1]])
    if t in ("Array", "Set", "Optional"): return (t, f(rt[1]))
    if t == "Map": return (t, f(rt[1]), f(rt[2]))
    if t == "Disc":
        ms = [f(x) for x in rt[1]]
        return (t, sorted(ms, key=repr) if sort_unions else ms, rt[2], sorted((k, f(x)) for k, x in rt[3]), sorted((k, f(x)) for k, x in rt[4]))
    if t == "Object": return (t, sorted((k, f(x)) for k, x in rt[1]), [(f(a), f(b)) for a, b in rt[2]])
    if t == "Regex": return (t, rt[2])
    if t in ("StringFmt", "NumberFmt"): return (t, sorted(rt[1]))
    if t == "AnyOfConsts": return (t, rt[1])
    return rt


def recursive_names(env):
    graph = {k: {n[1] for n in rt_nodes(v) if n[0] == "Ref"} & set(env) for k, v in env.items()}
    rec = set()
    for k in env:
        seen, todo = set(), list(graph[k])
        while todo:
            n = todo.pop()
            if n in seen: continue
            seen.add(n); todo += list(graph[n])
        if k in seen: rec.add(k)
    return rec


def is_node(x):
    return isinstance(x, tuple) and len(x) > 0 and isinstance(x[0], str) and x[0] in CTORS


def first_diff(a, b):
    """the first pair of differing nodes of two normalised trees (None when equal)"""
    if a == b: return None
    if not (is_node(a) and is_node(b)) or a[0] != b[0] or len(a) != len(b): return (a, b)
    for x, y in zip(a[1:], b[1:]):
        d = diff_field(x, y)
        if d == "SELF": return (a, b)
        if d is not None: return d
    return (a, b)


def diff_field(x, y):
    if x == y: return None
    if is_node(x) and is_node(y): return first_diff(x, y)
    if isinstance(x, list) and isinstance(y, list):
        if len(x) != len(y): return "SELF"
        for p, q in zip(x, y):
            if p == q: continue
            if is_node(p) and is_node(q): return first_diff(p, q)
            if isinstance(p, tuple) and isinstance(q, tuple) and len(p) == 2 == len(q):
                if isinstance(p[0], str):
                    return "SELF" if p[0] != q[0] else first_diff(p[1], q[1])
                return first_diff(p[0], q[0]) or first_diff(p[1], q[1])
            return "SELF"
    return "SELF"


CTORS = {"Typeof", "Any", "Nullish", "Never", "Const", "Regex", "Date", "BigInt", "TypedArray", "StringFmt", "NumberFmt", "AnyOfConsts",
         "Tuple", "AllOf", "AnyOf", "Array", "Map", "Set", "Disc", "Optional", "Object", "Ref", "Meta", "Missing", "Rec"}


def hash_class(t1, t2, env1, env2):
    """class of the structural difference between the two generations (None = unlisted), and the difference"""
    a, b = norm(t1, env1), norm(t2, env2)
    d = first_diff(a, b)
    if d is None: return "alias_boundaries_change_hash256", None
    if norm(t1, env1, sort_unions=True) == norm(t2, env2, sort_unions=True):
        return "union_member_order_depends_on_names", d
    x, y = d
    if x[0] in ("AnyOf", "AnyOfConsts") and len(x[1]) == 1: return "single_member_union_collapses", d
    if x[0] == "AllOf" and y[0] in ("Object", "AllOf"): return "intersection_of_named_objects_is_merged", d
    return None, d


def check(run):
    ok = run.prove("Props.C15", THEOREMS, ["Props/C15.vo"])
    common.ensure_harness()
    quick = run.tier == "quick"
    rnd = random.Random(run.seed + 1500)
    cov = run.coverage
    fails, disagree = [], []
    known = common.load_known("C15")
    listed = {k["class"] for k in known if k.get("kind") == "known"}
    in_known = collections.Counter()

    # ---------------- stream A
    cases = rstage.load_corpus("C15") + container_cases()
    cases += rstage.gen_cases(run.seed + 1501, 250 if quick else 12000, 1, depth=3)
    cases += rstage.gen_forced(run.seed + 1502, 50 if quick else 2400, 1)
    from checks.c13 import map_rt
    f = add_docs(rnd)
    extra = []
    for c in cases[: (150 if quick else 6000)]:
        extra.append({"env": [(k, map_rt(f, v)) for k, v in c["env"]], "rt": map_rt(f, c["rt"]), "source": "docs"})
    cases += extra
    jobs, exprs = [], []
    for i, c in enumerate(cases):
        hide = i % 3 == 0
        c["hide"] = hide
        jobs.append({"id": i, "env": env_json(c["env"]), "rt": rt_json(c["rt"]), "names": ["T"], "hide": hide, "ops": [{"op": "describe"}]})
        exprs.append('run_describe %s "T" %s %s' % (env_coq(c["env"]), "true" if hide else "false", rt_coq(c["rt"])))
    js = common.run_driver(jobs)
    texprs = [term_expr(c["env"], c["rt"]) for c in cases]
    cq = common.run_coq_cases(IMPORTS, exprs + texprs, tag="C15")
    tres = cq[len(exprs):]
    cq = cq[:len(exprs)]
    n_alias = n_doc = 0
    for i, c in enumerate(cases):
        out = js[i][0]
        desc = {"env": repr(c["env"]), "rt": repr(c["rt"]), "hide": c["hide"], "source": c.get("source")}
        if out.startswith("!"):
            fails.append(("describe-does-not-terminate-or-throws", dict(desc, impl=out, model=cq[i][:300])))
            continue
        al = declared_aliases(out)
        n_alias += 1 if len(al) > (0 if c["hide"] else 1) else 0
        n_doc += 1 if "/**" in out else 0
        dup = [a for a, n in collections.Counter(al).items() if n > 1]
        if dup:
            fails.append(("alias-declared-more-than-once", dict(desc, aliases=dup, text=out)))
        # every named type that is recursive or reached twice is declared
        envd = dict(c["env"])
        rec = recursive_names(envd)
        reach = set()
        todo = [n[1] for n in rt_nodes(c["rt"]) if n[0] == "Ref"]
        while todo:
            n = todo.pop()
            if n in reach or n not in envd: continue
            reach.add(n); todo += [m[1] for m in rt_nodes(envd[n]) if m[0] == "Ref"]
        counts = occurrence_counts(c["rt"], envd)
        missing = [n for n in reach if n not in al and (n in rec or counts[n] > 1)]
        if missing:
            if all(counts[n] <= 1 for n in missing) and "recursive_type_entered_once_is_inlined" in listed:
                in_known["recursive_type_entered_once_is_inlined"] += 1
            else:
                fails.append(("shared-or-recursive-named-type-not-declared", dict(desc, names=missing, text=out)))
        if out != cq[i]:
            disagree.append(("describe text", dict(desc, impl=out[:600], model=cq[i][:600])))

    # ---------------- stream B
    g = tsgen.TsGen(run.seed + 1503)
    n = 120 if quick else 6000
    sources = []
    for i in range(n):
        if i % 2 == 0:
            sources.append(forced_programs(g, i // 2))
        else:
            d, p = g.forced_program(i) if i % 5 == 0 else g.program()
            sources.append(tsgen.program_ts(d, p))
    res = cstage.compile_projects([[("entry.ts", s)] for s in sources])
    dumps = cstage.dump_modules(res)
    items, idx = [], []
    for i, r in enumerate(res):
        if r.get("outcome") == "code" and dumps[i] and "error" not in dumps[i]:
            pv = cstage.values_for_parsers(dumps[i], run.seed + i, 8 if quick else 20)
            items.append((r["code"], pv, [{"op": "describe"}]))
            idx.append(i)
    ev = cstage.eval_modules(items)
    proj2, meta = [], []
    for k, i in enumerate(idx):
        e = ev[k]
        if "error" in e:
            continue
        for name, x in e.items():
            text = x["extra"][0]
            desc = {"program": sources[i], "parser": name}
            if text.startswith("!"):
                fails.append(("describe-does-not-terminate-or-throws", dict(desc, impl=text)))
                continue
            al = declared_aliases(text)
            dup = [a for a, c in collections.Counter(al).items() if c > 1]
            if dup:
                fails.append(("alias-declared-more-than-once", dict(desc, aliases=dup, text=text)))
            proj2.append([("entry.ts", text + "\nparse.buildParsers<{ %s: Codec%s }>();" % (name, name))])
            meta.append((i, name, x, text, items[k][1][name]))
    res2 = cstage.compile_projects(proj2)
    dumps2 = cstage.dump_modules(res2)
    items2, idx2 = [], []
    for j, r in enumerate(res2):
        i, name, x, text, vals = meta[j]
        desc = {"program": sources[i], "parser": name, "described": text}
        trees = [dumps[i]["parsers"].get(name)] + [b for _, b in dumps[i]["env"]]
        nodes = [nd for t in trees if t is not None for nd in rt_nodes(t)]
        if r.get("outcome") != "code":
            if "index_signature_printed_as_mapped_type" in listed and any(nd[0] == "Object" and nd[2] and (nd[1] or len(nd[2]) > 1) for nd in nodes) \
                    and "[K in " in text:
                in_known["index_signature_printed_as_mapped_type"] += 1
            elif "format_types_need_import" in listed and any(nd[0] in ("StringFmt", "NumberFmt") for nd in nodes):
                in_known["format_types_need_import"] += 1
            else:
                fails.append(("described-text-does-not-compile", dict(desc, outcome=r.get("outcome"), diagnostics=(r.get("diags") or [])[:2])))
            continue
        if dumps2[j] is None or "error" in dumps2[j]:
            fails.append(("described-module-does-not-load", dict(desc, error=(dumps2[j] or {}).get("error"))))
            continue
        items2.append((r["code"], {name: vals}, []))
        idx2.append(j)
    ev2 = cstage.eval_modules(items2)
    judged = same_hash = 0
    for k, j in enumerate(idx2):
        i, name, x, text, vals = meta[j]
        desc = {"program": sources[i], "parser": name, "described": text}
        e = ev2[k]
        if "error" in e:
            fails.append(("described-module-does-not-load", dict(desc, error=e["error"])))
            continue
        judged += 1
        va, vb = x["validate"], e[name]["validate"]
        if va != vb:
            q = next(z for z in range(len(va)) if va[z] != vb[z])
            fails.append(("validate-differs-after-round-trip", dict(desc, value=val_canon(vals[q]), original=va[q], described=vb[q])))
            continue
        if x["hash256"] == e[name]["hash256"]:
            same_hash += 1
            continue
        env1, env2 = dict(dumps[i]["env"]), dict(dumps2[j]["env"])
        cls, d = hash_class(dumps[i]["parsers"][name], dumps2[j]["parsers"][name], env1, env2)
        if cls in listed:
            in_known[cls] += 1
        else:
            fails.append(("hash256-differs-after-round-trip", dict(desc, original=x["hash256"], described=e[name]["hash256"],
                                                                    first_structural_difference=repr(d)[:600])))

    cov["evaluations"] = len(cases) + len(meta)
    outside = [i for i, x in enumerate(tres) if x != "1"]
    cov["termination_premise"] = {"theorem": "C15_describe_terminates_on_recursive_types", "cases": len(tres),
                                  "hypotheses hold (term_check evaluated in Coq with post-order ranks)": len(tres) - len(outside),
                                  "first cases outside": [{"env": repr(cases[i]["env"]), "rt": repr(cases[i]["rt"]), "term_check": tres[i]}
                                                          for i in outside[:3]]}
    cov["distinct_nontrivial"] = n_alias + judged
    cov["rule"] = ("A: random/forced validator trees (every container as the carrier of recursion, names Object.prototype defines, "
                   "non-identifier keys, single- and multi-line descriptions) -> describe() text, implementation vs model, and on the "
                   "implementation's text: no throw, aliases unique, recursive names declared; non-trivial = at least one alias extracted. "
                   "B: generated TypeScript programs -> compile -> describe() -> compile the text -> validate() on type-directed values and "
                   "hash256() of both generations; non-trivial = second generation compiles and loads")
    cov["correspondence"]["describe() text, implementation vs Model/Describe.v"] = {
        "cases": len(cases), "disagreements": len(disagree),
        "distribution": {"constructors": rstage.histogram(cases), "with_extracted_aliases": n_alias, "with_doc_comments": n_doc,
                         "sources": dict(collections.Counter(c.get("source", "gen").split(":")[0] for c in cases))}}
    cov["spec_checks"]["round trip through the compiler"] = {
        "programs": n, "first_generation_outcomes": dict(collections.Counter(r.get("outcome") for r in res)),
        "parsers_described": len(meta), "second_generation_outcomes": dict(collections.Counter(r.get("outcome") for r in res2)),
        "judged": judged, "same_hash256": same_hash,
        "failures": dict(collections.Counter(k for k, _ in fails)), "failures inside listed classes": dict(in_known)}
    cov["samples"] = [{"program": sources[1], "described": meta[0][3] if meta else None}]
    cov["trusted_base"] = [
        "Coq 8.16.1 kernel, vm_compute; no axioms",
        "Model/Describe.v is hand-written from codegen-v2.ts (describe, describeChildren, collectDescribeRefs, ParserFromRuntype.describe) "
        "and tied to it by the text comparison above",
        "termination of describe() on recursive types and the round trip are not theorems: the compiler frontend is not modelled; they are "
        "decided by the search on the implementation",
        "value generation for the validate() comparison is type-directed from the dumped validator trees (tools/lib/gen.py)"]
    # ---------------- known and fixed findings
    for kf in known:
        w = eval(kf["witness"], {"__builtins__": {}}, {"None": None, "True": True, "False": False})
        bad = witness_fails(w)
        bad = bad if bad == w["fails_with"] else None
        if kf.get("kind") == "known" and bad:
            run.known("class=%s %s" % (kf["class"], kf["what"]))
            cov["known_findings_reproduced"].append(kf["class"])
        if kf.get("kind") == "fixed" and bad:
            run.violation("fixed-finding-returned-" + kf["class"], {"witness": kf["witness"], "observed": bad})
    if not ok:
        run.violation("proof", {"what": run.proof_broken, "theorems": THEOREMS}, no_input=not fails)
    seen = set()
    shown = 0
    for kind, payload in fails:
        if kind in seen and shown >= 3: continue
        if shown >= 6: break
        seen.add(kind); shown += 1
        run.violation("spec-%d-%s" % (shown, kind), dict(payload, clause=kind))
    if disagree and not fails:
        run.violation("correspondence", {
            "what": "correspondence stream '%s' no longer checks (%d cases); no input violating C15 was found" % (disagree[0][0], len(disagree)),
            "first": disagree[0][1]}, no_input=True)


def witness_fails(w):
    """replay a witness program; returns the kind of failure observed (None = round trip fine)"""
    r = cstage.compile_projects([[("entry.ts", w["program"])]])[0]
    if r.get("outcome") != "code": return None
    name = w["parser"]
    e = cstage.eval_modules([(r["code"], {name: []}, [{"op": "describe"}])])[0]
    if "error" in e: return None
    text = e[name]["extra"][0]
    if text.startswith("!"): return "describe-throws"
    if "undeclared" in w and w["undeclared"] not in declared_aliases(text): return "not-declared"
    r2 = cstage.compile_projects([[("entry.ts", text + "\nparse.buildParsers<{ %s: Codec%s }>();" % (name, name))]])[0]
    if r2.get("outcome") != "code": return "no-compile"
    e2 = cstage.eval_modules([(r2["code"], {name: []}, [])])[0]
    if "error" in e2: return "no-load"
    if e2[name]["hash256"] != e[name]["hash256"]: return "hash256-differs"
    return None


def replay(d):
    print(d)
    return 0
