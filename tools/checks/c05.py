"""C05 — assignability decisions coincide with inclusion of value sets."""
import collections
import json
import random
from lib import common, typegen, semref, bdds
from lib.vals import *

THEOREMS = ["C05_same_type_is_mutual_assignability", "C05_same_type_answer", "C05_assignability_is_emptiness_of_difference",
            "C05_difference_is_set_difference", "C05_assignable_implies_inclusion", "C05_basic_types_assignability_is_inclusion",
            "C05_list_types_assignable_implies_inclusion", "C05_list_only_types_assignable_implies_inclusion",
            "C05_list_only_types_not_assignable_has_a_separating_value", "C05_list_only_types_assignability_is_inclusion", "C05_lists_nonvacuous",
            "C05_flat_object_clause_empty_iff_covered", "C05_flat_object_conjunction_empty_iff_covered", "C05_index_aware_decider_agrees_on_index_free_atoms", "C05_flat_objects_nonvacuous",
            "C05_nonvacuous"]
IMPORTS = "From Beff Require Import Model.Cases Model.ListEmpty. From Beff Require Import Model.MappingEmpty Model.MappingEmptyIx."
QUERIES = ["a_sub_b", "b_sub_a", "same", "a_empty", "b_empty"]
STRUCT = ("Mapping", "List", "Map", "Set")


def has_allof(t):
    return any(n[0] == "AllOf" for n in semref.nodes(t))


def refs_allof(t, env):
    """an intersection with an object type among its members is reachable (the listed exact/open asymmetry is about those;
    intersections of list types or basic types are judged like everything else)"""
    envd = dict(env)
    sem = semref.Sem(env)
    seen, todo = set(), [t]
    while todo:
        x = todo.pop()
        for n in semref.nodes(x):
            if n[0] == "AllOf" and any(nd[0] == "Object" or (nd[0] == "Ref" and sem.as_object(nd) is not None)
                                       for m in n[1] for nd in semref.nodes(m)): return True
            if n[0] == "Ref" and n[1] not in seen and n[1] in envd:
                seen.add(n[1]); todo.append(envd[n[1]])
    return False


def cycle_with_alternative(ts, env):
    """a named type reachable from ts lies on a reference cycle and is referred to from inside a union: the shape on which the
    emptiness memo keeps an answer that was computed while an enclosing type was only assumed empty"""
    envd = dict(env)
    def refs(x): return {n[1] for n in semref.nodes(x) if n[0] == "Ref" and n[1] in envd}
    reach = {}
    def closure(n):
        if n not in reach:
            reach[n] = set()
            todo = list(refs(envd[n]))
            while todo:
                m = todo.pop()
                if m not in reach[n]:
                    reach[n].add(m); todo += list(refs(envd[m]))
        return reach[n]
    start = set()
    for t in ts: start |= refs(t)
    names = set(start)
    for n in list(start): names |= closure(n)
    cyclic = {n for n in names if n in closure(n)}
    if not cyclic: return False
    for n in names:
        for nd in semref.nodes(envd[n]):
            if nd[0] == "AnyOf" and any(m[0] == "Ref" and m[1] in cyclic for x in nd[1] for m in semref.nodes(x)): return True
    return False


def union_members_overlap(sem, t, env):
    """some union inside t (or inside a named type it reaches) has two object members one of which, read as an open pattern,
    contains every exact value of the other: the situation in which the decision diagram's expansion changes the meaning"""
    envd = dict(env)
    seen, todo, unions = set(), [t], []
    while todo:
        x = todo.pop()
        for n in semref.nodes(x):
            if n[0] == "AnyOf": unions.append(n)
            if n[0] == "Ref" and n[1] not in seen and n[1] in envd:
                seen.add(n[1]); todo.append(envd[n[1]])
    def flat(n):
        out = []
        for m in n[1]:
            m = semref.strip(m)
            if m[0] == "AnyOf": out += flat(m)
            elif m[0] == "Ref" and m[1] in envd and semref.strip(envd[m[1]])[0] == "AnyOf": out += flat(semref.strip(envd[m[1]]))
            else: out.append(m)
        return out
    for u in unions:
        objs = [o for o in (sem.as_object(m) for m in flat(u)) if o is not None]
        for i, m1 in enumerate(objs):
            for j, m2 in enumerate(objs):
                if i == j: continue
                try:
                    uni = sem.universe([m1, m2])
                    vals, _ = sem.enumerate(m2, uni, 3, 30)
                    if vals and all(sem.member(m1, v, False) for v in vals): return True
                except (semref.Incomplete, RecursionError):
                    pass
    return False


def basic_type(g, depth=2):
    r = g.r
    if depth <= 0 or r.random() < 0.5: return g.leaf()
    return ["AnyOf", [basic_type(g, depth - 1) for _ in range(r.randrange(2, 4))]]


def check(run):
    ok = run.prove("Props.C05", THEOREMS, ["Props/C05.vo", "Model/MappingEmpty.vo", "Model/MappingEmptyIx.vo"])
    common.ensure_harness()
    quick = run.tier == "quick"
    g = typegen.TypeGen(run.seed + 500)
    g.no_allof = True
    gi = typegen.TypeGen(run.seed + 501)
    r = random.Random(run.seed + 502)
    n_basic, n_struct, n_inter = (150, 500, 120) if quick else (8000, 40000, 8000)
    cases = []
    for i in range(n_basic):
        a = basic_type(g)
        q = r.random()
        b = basic_type(g) if q < 0.4 else (g.widen(a, []) if q < 0.7 else ["AnyOf", [a, basic_type(g)]])
        if q > 0.85: a, b = b, a
        cases.append(([], a, b, "basic"))
    for i in range(n_struct):
        env, names = g.env()
        a, b, how = g.pair(names)
        cases.append((env, a, b, how))
    for i in range(n_inter):
        env, names = gi.env()
        a, b, how = gi.pair(names)
        cases.append((env, a, b, "intersections:" + how))
    known = common.load_known("C05")
    for kf in known:
        w = json.loads(kf["witness"])
        cases.append((w["named"], w["a"], w["b"], "witness:" + kf["class"]))
    jobs = []
    for i, (env, a, b, how) in enumerate(cases):
        first = "b" if i % 2 else "a"
        order = list(QUERIES)
        jobs.append({"id": "%d.0" % i, "op": "ty_subtype", "named": env, "a": a, "b": b, "first": first, "order": order})
        order2 = list(QUERIES); r.shuffle(order2)
        jobs.append({"id": "%d.1" % i, "op": "ty_subtype", "named": env, "a": a, "b": b, "first": "a" if first == "b" else "b", "order": order2})
    res = common.run_engine(jobs)
    listed = {k["class"] for k in known if k.get("kind") == "known"}
    in_known = collections.Counter()
    fails, disagree = [], []
    exprs, emeta = [], []
    agree = collections.Counter()
    unjudged = 0
    hist = collections.Counter()
    reproduced = set()
    for i, (env, a, b, how) in enumerate(cases):
        r0, r1 = res[2 * i], res[2 * i + 1]
        desc = {"named": env, "a": a, "b": b, "pair": how}
        hist[how.split(":")[0]] += 1
        if "ok" not in r0 or "ok" not in r1:
            fails.append(("decision-does-not-terminate-or-panics", dict(desc, result=str(r0)[:300] + " / " + str(r1)[:300])))
            continue
        o0, o1 = r0["ok"], r1["ok"]
        if "err" in o0 or "err" in o1:
            unjudged += 1
            continue
        inter = refs_allof(a, env) or refs_allof(b, env)
        sem0 = semref.Sem(env)
        overlap = None
        def bad(kind, payload, cls="intersection_of_object_types_in_assignability"):
            nonlocal overlap
            if how.startswith("witness:"):
                reproduced.add(how.split(":", 1)[1])
                return
            if inter and cls in listed:
                in_known[cls] += 1
                return
            if "memo_keeps_answer_computed_under_assumption" in listed and kind != "decision-depends-on-conversion-or-query-order" \
                    and cycle_with_alternative([a, b], env):
                in_known["memo_keeps_answer_computed_under_assumption"] += 1
                return
            if "union_members_overlap_as_open_patterns" in listed:
                if overlap is None: overlap = union_members_overlap(sem0, a, env) or union_members_overlap(sem0, b, env)
                if overlap:
                    in_known["union_members_overlap_as_open_patterns"] += 1
                    return
            fails.append((kind, payload))
        if any(isinstance(o[q], dict) and "err" in o[q] for o in (o0, o1) for q in QUERIES):
            unjudged += 1          # an operation the engine does not support (it answers with an error, i.e. a diagnostic)
            continue
        for q in QUERIES:
            if o0[q] != o1[q]:
                bad("decision-depends-on-conversion-or-query-order", dict(desc, query=q, first_a=o0[q] if jobs[2 * i]["first"] == "a" else o1[q],
                                                                         first_b=o1[q] if jobs[2 * i]["first"] == "a" else o0[q]))
        if any(not isinstance(o0[q], bool) for q in QUERIES):
            unjudged += 1
            continue
        if o0["same"] != (o0["a_sub_b"] and o0["b_sub_a"]):
            fails.append(("same-type-is-not-mutual-assignability", dict(desc, decisions={q: o0[q] for q in QUERIES})))
        sem = semref.Sem(env)
        for (x, y, key) in ((a, b, "a_sub_b"), (b, a, "b_sub_a")):
            dec = o0[key]
            try:
                uni = sem.universe([x, y])
                vals, exh = sem.enumerate(x, uni, 4, 40)
                wit = [v for v in vals if not sem.member(y, v, False)]
            except (semref.Incomplete, RecursionError):
                unjudged += 1
                continue
            d2 = dict(desc, direction=key, decision=dec)
            if dec and wit:
                bad("assignable-but-a-value-of-the-first-is-not-in-the-second", dict(d2, witness=val_canon(wit[0])))
            elif (not dec) and not wit and exh:
                bad("not-assignable-but-no-value-separates-them", dict(d2, exact_values_enumerated=len(vals)))
            elif (not dec) and not wit:
                unjudged += 1
            else:
                agree[dec] += 1
        for q, t in (("a_empty", a), ("b_empty", b)):
            try:
                uni = sem.universe([t])
                vals, exh = sem.enumerate(t, uni, 4, 40)
            except (semref.Incomplete, RecursionError):
                continue
            if o0[q] and vals:
                bad("reported-empty-but-has-a-value", dict(desc, which=q, witness=val_canon(vals[0])))
            elif not o0[q] and not vals and exh:
                bad("reported-inhabited-but-no-value-found", dict(desc, which=q))
        # the model of the top level (is_subtype = is_empty(diff), basic components) on semtypes without structural parts
        sa, sb = o0["sem_a"], o0["sem_b"]
        if not any(p[0] in STRUCT for p in sa["data"] + sb["data"]):
            exprs.append("show_res_bool (sem_is_subtype no_struct %s %s)" % (bdds.sem_coq(sa), bdds.sem_coq(sb)))
            exprs.append("show_res_bool (sem_is_same no_struct %s %s)" % (bdds.sem_coq(sa), bdds.sem_coq(sb)))
            emeta.append((i, o0["a_sub_b"], o0["same"]))
    # the model of list emptiness (Model/ListEmpty.v: bdd_every_result, list_formula_is_empty, list_inhabited) on the pairs whose only
    # structural components are lists, with the engine's own atom table; recursive tables run the model out of fuel and are skipped
    lexprs, lmeta = [], []
    def only_lists(sem):
        return all(p[0] not in ("Mapping", "Map", "Set") for p in sem["data"])
    for i, (env, a, b, how) in enumerate(cases):
        r0 = res[2 * i]
        if "ok" not in r0 or "err" in r0["ok"] or "lists" not in r0["ok"]: continue
        o0 = r0["ok"]
        sa, sb, lists = o0["sem_a"], o0["sem_b"], o0["lists"]
        if not lists or any(d is None for _, d in lists): continue
        if not any(p[0] == "List" for p in sa["data"] + sb["data"]): continue
        if not (only_lists(sa) and only_lists(sb) and all(only_lists(t) for _, d in lists for t in d["prefix"] + [d["items"]])): continue
        if not all(isinstance(o0[q], bool) for q in ("a_sub_b", "b_sub_a", "a_empty")): continue
        tbl = "[" + "; ".join("(%d%%N, mkLatom %s %s)" % (k, coq_list(bdds.sem_coq(t) for t in d["prefix"]), bdds.sem_coq(d["items"]))
                              for k, d in lists) + "]"
        A, B = bdds.sem_coq(sa), bdds.sem_coq(sb)
        lexprs.append('show_res_bool (sem_is_subtype_l %s no_struct 12 %s %s) +++ show_res_bool (sem_is_subtype_l %s no_struct 12 %s %s) '
                      '+++ show_res_bool (sem_is_empty_l %s no_struct 12 %s)' % (tbl, A, B, tbl, B, A, tbl, A))
        lmeta.append((i, "".join("t" if o0[q] else "f" for q in ("a_sub_b", "b_sub_a", "a_empty"))))
    ldis, lskipped = [], 0
    for (i, want), got in zip(lmeta, common.run_coq_cases(IMPORTS, lexprs, tag="C05lists", shard=40)):
        if "!" in got:
            lskipped += 1
        elif got != want:
            env, a, b, how = cases[i]
            ldis.append(("list emptiness model vs the engine", {"named": env, "a": a, "b": b, "pair": how, "impl(a<=b,b<=a,a empty)": want, "model": got}))
    disagree += ldis
    # the model of object emptiness (Model/MappingEmpty.v: bdd_to_dnf, intersect_mapping, check_mapping_empty) together with the list model,
    # on the pairs whose structural components are objects and lists, with the engine's own atom tables; atoms with an index signature
    # and recursive tables make the model throw / run out of fuel and are skipped
    mexprs, mmeta = [], []
    def no_map_set(sem):
        return all(p[0] not in ("Map", "Set") for p in sem["data"])
    for i, (env, a, b, how) in enumerate(cases):
        r0 = res[2 * i]
        if "ok" not in r0 or "err" in r0["ok"] or "mappings" not in r0["ok"]: continue
        o0 = r0["ok"]
        sa, sb, lists, mappings = o0["sem_a"], o0["sem_b"], o0["lists"], o0["mappings"]
        if any(d is None for _, d in lists) or any(d is None for _, d in mappings): continue
        if not any(p[0] == "Mapping" for p in sa["data"] + sb["data"]): continue
        if any(d["indexed"] for _, d in mappings): continue
        inner = [t for _, d in lists for t in d["prefix"] + [d["items"]]] + [t for _, d in mappings for _, t in d["fields"]]
        if not (no_map_set(sa) and no_map_set(sb) and all(no_map_set(t) for t in inner)): continue
        if not all(isinstance(o0[q], bool) for q in ("a_sub_b", "b_sub_a", "a_empty")): continue
        ltbl = "[" + "; ".join("(%d%%N, mkLatom %s %s)" % (k, coq_list(bdds.sem_coq(t) for t in d["prefix"]), bdds.sem_coq(d["items"]))
                               for k, d in lists) + "]"
        mtbl = "[" + "; ".join("(%d%%N, mkMatom %s false)" % (k, coq_list("(%s, %s)" % (coq_str(f), bdds.sem_coq(t)) for f, t in d["fields"]))
                               for k, d in mappings) + "]"
        A, B = bdds.sem_coq(sa), bdds.sem_coq(sb)
        mexprs.append('let lt := %s in let mt := %s in show_res_bool (sem_is_subtype_s lt mt no_struct 10 %s %s) +++ '
                      'show_res_bool (sem_is_subtype_s lt mt no_struct 10 %s %s) +++ show_res_bool (sem_is_empty_s lt mt no_struct 10 %s)'
                      % (ltbl, mtbl, A, B, B, A, A))
        mmeta.append((i, "".join("t" if o0[q] else "f" for q in ("a_sub_b", "b_sub_a", "a_empty"))))
    mdis, mskipped = [], 0
    for (i, want), got in zip(mmeta, common.run_coq_cases(IMPORTS, mexprs, tag="C05maps", shard=40)):
        if "!" in got:
            mskipped += 1
        elif got != want:
            env, a, b, how = cases[i]
            mdis.append(("object emptiness model vs the engine", {"named": env, "a": a, "b": b, "pair": how, "impl(a<=b,b<=a,a empty)": want, "model": got}))
    disagree += mdis
    # the same with index signatures over `string` (Model/MappingEmptyIx.v); other key types make the model throw and are skipped
    xexprs, xmeta = [], []
    for i, (env, a, b, how) in enumerate(cases):
        r0 = res[2 * i]
        if "ok" not in r0 or "err" in r0["ok"] or "mappings" not in r0["ok"]: continue
        o0 = r0["ok"]
        sa, sb, lists, mappings = o0["sem_a"], o0["sem_b"], o0["lists"], o0["mappings"]
        if any(d is None for _, d in lists) or any(d is None for _, d in mappings): continue
        if not any(d["indexed"] for _, d in mappings): continue
        inner = [t for _, d in lists for t in d["prefix"] + [d["items"]]] + [t for _, d in mappings for _, t in d["fields"]] + \
                [t for _, d in mappings if d.get("index") for t in d["index"]]
        if not (no_map_set(sa) and no_map_set(sb) and all(no_map_set(t) for t in inner)): continue
        if not all(isinstance(o0[q], bool) for q in ("a_sub_b", "b_sub_a", "a_empty")): continue
        ltbl = "[" + "; ".join("(%d%%N, mkLatom %s %s)" % (k, coq_list(bdds.sem_coq(t) for t in d["prefix"]), bdds.sem_coq(d["items"]))
                               for k, d in lists) + "]"
        xtbl = "[" + "; ".join("(%d%%N, mkXatom %s %s)" % (k, coq_list("(%s, %s)" % (coq_str(f), bdds.sem_coq(t)) for f, t in d["fields"]),
                                                              "None" if not d.get("index") else "(Some (%s, %s))" % (bdds.sem_coq(d["index"][0]), bdds.sem_coq(d["index"][1])))
                               for k, d in mappings) + "]"
        A, B = bdds.sem_coq(sa), bdds.sem_coq(sb)
        xexprs.append('let lt := %s in let xt := %s in show_res_bool (sem_is_subtype_x lt xt no_struct 10 %s %s) +++ '
                      'show_res_bool (sem_is_subtype_x lt xt no_struct 10 %s %s) +++ show_res_bool (sem_is_empty_x lt xt no_struct 10 %s)'
                      % (ltbl, xtbl, A, B, B, A, A))
        xmeta.append((i, "".join("t" if o0[q] else "f" for q in ("a_sub_b", "b_sub_a", "a_empty"))))
    xdis, xskipped = [], 0
    for (i, want), got in zip(xmeta, common.run_coq_cases(IMPORTS, xexprs, tag="C05ix", shard=40)):
        if "!" in got:
            xskipped += 1
        elif got != want:
            env, a, b, how = cases[i]
            xdis.append(("object emptiness model with index signatures vs the engine", {"named": env, "a": a, "b": b, "pair": how, "impl(a<=b,b<=a,a empty)": want, "model": got}))
    disagree += xdis
    cq = common.run_coq_cases(IMPORTS, exprs, tag="C05")
    for k, (i, sub, same) in enumerate(emeta):
        tf = lambda x: "t" if x else "f"
        if cq[2 * k] != tf(sub) or cq[2 * k + 1] != tf(same):
            env, a, b, how = cases[i]
            disagree.append(("is_subtype/is_same_type on basic semtypes", {"a": a, "b": b, "impl": [sub, same], "model": [cq[2 * k], cq[2 * k + 1]]}))
    cov = run.coverage
    cov["evaluations"] = 2 * len(cases)
    cov["distinct_nontrivial"] = min(agree[True], agree[False])
    cov["rule"] = ("pairs of IR types of the C05 fragment: basic (primitives, literals, unions), structural without intersections (objects with "
                   "required/optional properties and index signatures, arrays, tuples with rest, unions, named and recursive references), and "
                   "with intersections; related pairs (widened, narrowed, union vs member) and random pairs; every pair is converted in both orders "
                   "(a first / b first) and queried in two orders; each decision is compared with a bounded enumeration of the exact values of the "
                   "left type over a universe derived from both types (a value outside the right type refutes 'assignable'; an exhaustive "
                   "enumeration without such a value refutes 'not assignable'); non-trivial = min(#assignable, #not assignable) among judged")
    cov["correspondence"]["is_subtype / is_same_type of Model/Subtype.v vs the engine, on semtypes without structural components"] = {
        "cases": len(emeta), "disagreements": len(disagree) - len(ldis) - len(mdis) - len(xdis), "distribution": {"pairs": dict(hist)}}
    cov["correspondence"]["list_is_empty of Model/ListEmpty.v (bdd_every_result, list_formula_is_empty, list_inhabited) vs the engine, with "
                          "the engine's own list atoms, on pairs whose structural components are lists only"] = {
        "cases": 3 * (len(lmeta) - lskipped), "disagreements": len(ldis),
        "distribution": {"pairs": len(lmeta), "pairs skipped (recursive list types: the model runs out of fuel)": lskipped,
                         "pair kinds": dict(collections.Counter(cases[i][3].split(":")[0] for i, _ in lmeta))}}
    cov["correspondence"]["struct_is_empty of Model/MappingEmpty.v (bdd_to_dnf, intersect_mapping, check_mapping_empty; with the list model) vs the "
                          "engine, with the engine's own object and list atoms, on pairs with object components and no index signature"] = {
        "cases": 3 * (len(mmeta) - mskipped), "disagreements": len(mdis),
        "distribution": {"pairs": len(mmeta), "pairs skipped (recursive types: the model runs out of fuel)": mskipped,
                         "pair kinds": dict(collections.Counter(cases[i][3].split(":")[0] for i, _ in mmeta))}}
    cov["correspondence"]["xstruct_is_empty of Model/MappingEmptyIx.v (check_mapping_empty with string index signatures, the extra-key step of ed39a94) "
                          "vs the engine, on pairs whose object atoms carry index signatures"] = {
        "cases": 3 * (len(xmeta) - xskipped), "disagreements": len(xdis),
        "distribution": {"pairs": len(xmeta), "pairs skipped (other key types, recursive types)": xskipped,
                         "pair kinds": dict(collections.Counter(cases[i][3].split(":")[0] for i, _ in xmeta))}}
    cov["spec_checks"]["decisions vs inclusion of value sets"] = {
        "pairs": len(cases), "directions_judged": agree[True] + agree[False], "assignable": agree[True], "not_assignable": agree[False],
        "unjudged (bounded enumeration not exhaustive, or conversion error)": unjudged,
        "failures": dict(collections.Counter(k for k, _ in fails)), "failures inside listed classes": dict(in_known)}
    cov["samples"] = [{"a": cases[n_basic][1], "b": cases[n_basic][2], "named": cases[n_basic][0]}]
    cov["trusted_base"] = [
        "Coq 8.16.1 kernel, vm_compute; no axioms",
        "the emptiness procedures for lists and mappings (bdd.rs list_inhabited, mapping.rs check_mapping_empty, the memo tables) are not "
        "modelled: they are a parameter of Model/Subtype.v and are judged by the enumeration (testing, bounded: depth 4, capped breadth)",
        "tools/lib/semref.py is the set-theoretic reading of the fragment (exact left, structural right); its universe construction "
        "(literals of both types plus one fresh string, number and key) is assumed to contain a separating value when one exists",
        "Runtype::to_sem_type is driven through the public API by harness/engine (types.rs)"]
    for kf in known:
        if kf.get("kind") == "known" and kf["class"] in reproduced:
            run.known("class=%s %s" % (kf["class"], kf["what"]))
            cov["known_findings_reproduced"].append(kf["class"])
        if kf.get("kind") == "fixed" and kf["class"] in reproduced:
            run.violation("fixed-finding-returned-" + kf["class"], {"witness": kf["witness"]})
    if not ok:
        run.violation("proof", {"what": run.proof_broken, "theorems": THEOREMS}, no_input=not fails)
    seen = collections.Counter()
    for kind, payload in fails:
        seen[kind] += 1
        if seen[kind] <= 2 and sum(min(v, 2) for v in seen.values()) <= 6:
            run.violation("spec-%s-%d" % (kind, seen[kind]), dict(payload, clause=kind))
    if disagree and not fails:
        run.violation("correspondence", {
            "what": "correspondence stream '%s' no longer checks (%d cases); no pair violating C05 was found" % (disagree[0][0], len(disagree)),
            "first": disagree[0][1]}, no_input=True)


def replay(d):
    print(d)
    return 0
