"""C06 — type-level union, intersection, difference, complement are exact set operations."""
import collections
import itertools
import json
import random
from lib import common, bdds

THEOREMS = ["C06_union", "C06_intersect", "C06_diff", "C06_complement", "C06_from_node", "C06_bdd_to_dnf", "C06_dnf_to_bdd",
            "C06_tag_codes", "C06_literal_sets", "C06_semtype_union", "C06_semtype_intersect", "C06_semtype_diff",
            "C06_semtype_complement", "C06_semtype_nonvacuous", "C06_nonvacuous"]
IMPORTS = "From Beff Require Import Model.Cases Model.SemSpec."
OPS = {"union": "||", "intersect": "&&", "diff": "&&!"}


def atoms_coq(atoms):
    return "[" + "; ".join("(mkAtom %s %d%%N)" % (bdds.KINDS[a[0]], a[1]) for a in atoms) + "]"


def combine(op, ta, tb):
    out = []
    for x, y in zip(ta, tb):
        x, y = x == "t", y == "t"
        v = {"union": x or y, "intersect": x and y, "diff": x and not y}[op]
        out.append("t" if v else "f")
    return "".join(out)


def check(run):
    ok = run.prove("Props.C06", THEOREMS, ["Props/C06.vo", "Model/SemSpec.vo"])
    common.ensure_harness()
    quick = run.tier == "quick"
    r = random.Random(run.seed + 600)
    cov = run.coverage
    # ---------------------------------------------------------------- operands
    base_atoms = [("M", 0), ("M", 1), ("M", 2)] if quick else [("M", 0), ("M", 1), ("M", 2), ("M", 3)]
    pool = [True, False] + [bdds.atom(a) for a in base_atoms]
    # closure under the operations, computed by the implementation itself
    seen = {bdds.bdd_show(b): b for b in pool}
    rounds = 2
    cap = 60 if quick else 400
    for _ in range(rounds):
        cur = list(seen.values())
        if len(cur) > cap:
            cur = r.sample(cur, cap)
        jobs = []
        for i, (a, b) in enumerate(itertools.product(cur, cur)):
            if r.random() < (0.35 if quick else 0.5):
                jobs.append({"id": i, "op": r.choice(["union", "intersect", "diff"]), "a": a, "b": b})
        jobs += [{"id": "c%d" % i, "op": "complement", "a": a} for i, a in enumerate(cur)]
        for res in common.run_engine(jobs):
            if "ok" in res:
                seen.setdefault(bdds.bdd_show(res["ok"]), res["ok"])
    closure = list(seen.values())
    pairs = []
    cl = closure if len(closure) <= cap else r.sample(closure, cap)
    for a, b in itertools.product(cl, cl):
        if r.random() < (0.25 if quick else 0.6):
            pairs.append((a, b))
    # random deep diagrams, ordered (as the engine builds them) and arbitrary
    many = [(k, i) for k in "MLPS" for i in range(3)]
    for _ in range(150 if quick else 3000):
        ats = sorted(r.sample(many, r.randrange(2, 7)), key=bdds.atom_key)
        pairs.append((bdds.random_ordered(r, ats, 5), bdds.random_ordered(r, ats, 5)))
    for _ in range(60 if quick else 1000):
        ats = r.sample(many, r.randrange(2, 5))
        pairs.append((bdds.random_any(r, ats, 3), bdds.random_any(r, ats, 3)))
    # ---------------------------------------------------------------- engine jobs
    jobs, exprs, meta = [], [], []
    for i, (a, b) in enumerate(pairs):
        for op in ("union", "intersect", "diff"):
            jobs.append({"id": len(jobs), "op": op, "a": a, "b": b})
            exprs.append("show_obdd (%s BFUEL %s %s)" % (op, bdds.bdd_coq(a), bdds.bdd_coq(b)))
            meta.append((op, a, b))
        jobs.append({"id": len(jobs), "op": "complement", "a": a})
        exprs.append("show_obdd (complement BFUEL %s)" % bdds.bdd_coq(a))
        meta.append(("complement", a, None))
        jobs.append({"id": len(jobs), "op": "to_dnf", "a": a})
        exprs.append("show_dnf (bdd_to_dnf %s)" % bdds.bdd_coq(a))
        meta.append(("to_dnf", a, None))
    res = common.run_engine(jobs)
    # dnf -> bdd on the implementation's own DNFs
    jobs2, meta2 = [], []
    for (op, a, b), rr in zip(meta, res):
        if op == "to_dnf" and "ok" in rr and len(rr["ok"]) <= 12:
            jobs2.append({"id": len(jobs2), "op": "from_dnf", "d": rr["ok"]})
            exprs.append("show_obdd (dnf_to_bdd BFUEL %s)" % bdds.dnf_coq(rr["ok"]))
            meta2.append(("from_dnf", rr["ok"], a))
    res2 = common.run_engine(jobs2)
    # ---------------------------------------------------------------- spec side: truth tables (Gallina eval) of the implementation's results
    spec_exprs, spec_meta = [], []
    for k, ((op, a, b), rr) in enumerate(zip(meta, res)):
        if "ok" not in rr:
            continue
        ats = sorted(bdds.bdd_atoms(a) | (bdds.bdd_atoms(b) if b is not None else set()), key=bdds.atom_key)
        if len(ats) > 7:
            continue
        ac = atoms_coq(ats)
        if op == "to_dnf":
            spec_exprs += ["truth_table_dnf %s %s" % (ac, bdds.dnf_coq(rr["ok"])), "truth_table %s %s" % (ac, bdds.bdd_coq(a))]
            spec_meta.append((k, op, 2))
        elif op == "complement":
            spec_exprs += ["truth_table %s %s" % (ac, bdds.bdd_coq(rr["ok"])), "truth_table %s %s" % (ac, bdds.bdd_coq(a))]
            spec_meta.append((k, op, 2))
        else:
            spec_exprs += ["truth_table %s %s" % (ac, bdds.bdd_coq(rr["ok"])), "truth_table %s %s" % (ac, bdds.bdd_coq(a)),
                           "truth_table %s %s" % (ac, bdds.bdd_coq(b))]
            spec_meta.append((k, op, 3))
    for k, ((op, d, a), rr) in enumerate(zip(meta2, res2)):
        if "ok" not in rr:
            continue
        ats = sorted(bdds.bdd_atoms(a), key=bdds.atom_key)
        if len(ats) > 7:
            continue
        ac = atoms_coq(ats)
        spec_exprs += ["truth_table %s %s" % (ac, bdds.bdd_coq(rr["ok"])), "truth_table_dnf %s %s" % (ac, bdds.dnf_coq(d))]
        spec_meta.append((("d", k), op, 2))
    # ---------------------------------------------------------------- semtypes
    abk = {k: [(k, i) for i in range(3)] for k in "MLPS"}
    sjobs, sexprs, smeta = [], [], []
    for i in range(250 if quick else 5000):
        formats = r.random() < 0.25
        t1, t2 = bdds.random_semtype(r, abk, formats), bdds.random_semtype(r, abk, formats)
        for op in ("union", "intersect", "diff"):
            sjobs.append({"id": len(sjobs), "op": "st_" + op, "a": t1, "b": t2})
            sexprs.append("show_sem_res (sem_%s %s %s)" % (op, bdds.sem_coq(t1), bdds.sem_coq(t2)))
            smeta.append((op, t1, t2, formats))
        sjobs.append({"id": len(sjobs), "op": "st_complement", "a": t1})
        sexprs.append("show_sem_res (sem_complement %s)" % bdds.sem_coq(t1))
        smeta.append(("complement", t1, None, formats))
    sres = common.run_engine(sjobs)
    # spec side for semtypes (fragment without formats): membership tables of the implementation's result
    sspec_exprs, sspec_meta = [], []
    for k, ((op, t1, t2, formats), rr) in enumerate(zip(smeta, sres)):
        if formats or "ok" not in rr or "err" in rr["ok"]:
            continue
        sspec_exprs.append("sem_table %s" % bdds.sem_coq(rr["ok"]))
        sspec_exprs.append("sem_table %s" % bdds.sem_coq(t1))
        if t2 is not None:
            sspec_exprs.append("sem_table %s" % bdds.sem_coq(t2))
        sspec_meta.append((k, op, 3 if t2 is not None else 2))
    n1, n2, n3 = len(exprs), len(spec_exprs), len(sexprs)
    cq = common.run_coq_cases(IMPORTS, exprs + spec_exprs + sexprs + sspec_exprs, tag="C06", shard=150)
    model, spec, smodel, sspec = cq[:n1], cq[n1:n1 + n2], cq[n1 + n2:n1 + n2 + n3], cq[n1 + n2 + n3:]
    # ---------------------------------------------------------------- compare
    disagree, fails = [], []

    def impl_text(rr, dnf=False):
        if "ok" in rr:
            return bdds.dnf_show(rr["ok"]) if dnf else bdds.bdd_show(rr["ok"])
        return "!panic:" + str(rr.get("panic", rr.get("crash")))[:80]
    for k, ((op, a, b), rr) in enumerate(zip(meta, res)):
        it = impl_text(rr, op == "to_dnf")
        if it != model[k]:
            disagree.append({"op": op, "a": bdds.bdd_show(a), "b": bdds.bdd_show(b) if b is not None else None, "impl": it, "model": model[k]})
        if it.startswith("!"):
            fails.append(("engine-panics", {"op": op, "a": bdds.bdd_show(a), "b": bdds.bdd_show(b) if b is not None else None, "impl": it}))
    for k, ((op, d, a), rr) in enumerate(zip(meta2, res2)):
        it = impl_text(rr)
        if it != model[len(meta) + k]:
            disagree.append({"op": op, "dnf": bdds.dnf_show(d), "impl": it, "model": model[len(meta) + k]})
    pos = 0
    for (k, op, n) in spec_meta:
        tabs = spec[pos:pos + n]
        pos += n
        if op in ("to_dnf", "from_dnf"):
            good = tabs[0] == tabs[1]
        elif op == "complement":
            good = tabs[0] == "".join("f" if c == "t" else "t" for c in tabs[1])
        else:
            good = tabs[0] == combine(op, tabs[1], tabs[2])
        if not good:
            if isinstance(k, tuple):
                o, d, a = meta2[k[1]]
                fails.append(("dnf_to_bdd-changes-meaning", {"dnf": bdds.dnf_show(d), "result": impl_text(res2[k[1]]), "tables": tabs}))
            else:
                o, a, b = meta[k]
                fails.append((op + "-is-not-the-set-operation", {"a": bdds.bdd_show(a), "b": bdds.bdd_show(b) if b is not None else None,
                                                                 "result": impl_text(res[k], op == "to_dnf"),
                                                                 "truth_tables(result,a,b) over sorted atoms": tabs}))
    for k, ((op, t1, t2, formats), rr) in enumerate(zip(smeta, sres)):
        it = bdds.show_sem(rr["ok"]) if "ok" in rr else "!panic:" + str(rr.get("panic", rr.get("crash")))[:80]
        if it != smodel[k]:
            disagree.append({"op": "semtype " + op, "a": bdds.show_sem(t1), "b": bdds.show_sem(t2) if t2 else None, "impl": it, "model": smodel[k]})
        if it.startswith("!panic"):
            fails.append(("engine-panics", {"op": "semtype " + op, "a": bdds.show_sem(t1), "b": bdds.show_sem(t2) if t2 else None, "impl": it}))
    pos = 0
    for (k, op, n) in sspec_meta:
        tabs = sspec[pos:pos + n]
        pos += n
        if op == "complement":
            good = tabs[0] == "".join("f" if c == "t" else "t" for c in tabs[1])
        else:
            good = tabs[0] == combine(op, tabs[1], tabs[2])
        if not good:
            o, t1, t2, _ = smeta[k]
            fails.append(("semtype-" + op + "-is-not-the-set-operation",
                          {"a": bdds.show_sem(t1), "b": bdds.show_sem(t2) if t2 else None, "result": bdds.show_sem(sres[k]["ok"]),
                           "membership tables (result, a, b) over the sample points of Model/SemSpec.v": tabs}))
    cov["evaluations"] = len(meta) + len(meta2) + len(smeta)
    cov["distinct_nontrivial"] = len({bdds.bdd_show(a) for _, a, _ in meta if a not in (True, False)})
    cov["rule"] = ("(a) pairs from the closure of {T,F,atoms} under the four operations (computed by the implementation), "
                   "(b) random ordered diagrams over up to 6 atoms of all four kinds, (c) arbitrary unordered trees, each with "
                   "union/intersect/diff/complement/bdd_to_dnf and dnf_to_bdd of the resulting DNF; (d) random well-formed semtypes "
                   "(all 13 tags, literal sets with both flags, formats in a quarter); non-trivial = non-constant left operand")
    cov["correspondence"]["BddOps + bdd_to_dnf + dnf_to_bdd impl vs model"] = {
        "cases": len(meta) + len(meta2), "disagreements": sum(1 for d in disagree if not d["op"].startswith("semtype")),
        "distribution": {"closure_size": len(closure), "pairs": len(pairs),
                         "sizes": dict(collections.Counter(min(bdds.bdd_size(a) // 5 * 5, 40) for _, a, _ in meta))}}
    cov["correspondence"]["SemTypeOps impl vs model"] = {"cases": len(smeta), "disagreements": sum(1 for d in disagree if d["op"].startswith("semtype"))}
    cov["spec_checks"]["result denotes the Boolean combination (complete truth tables / membership tables)"] = {
        "bdd_results_judged": len(spec_meta), "semtype_results_judged": len(sspec_meta),
        "failures": dict(collections.Counter(k for k, _ in fails))}
    cov["samples"] = [{"op": meta[i][0], "a": bdds.bdd_show(meta[i][1]), "b": bdds.bdd_show(meta[i][2]) if meta[i][2] is not None else None,
                       "impl": impl_text(res[i], meta[i][0] == "to_dnf")} for i in (0, len(meta) // 2)]
    # listed findings: laws that hold for every reading of the operands as sets, replayed on the engine
    for kf in common.load_known("C06"):
        w = json.loads(kf["witness"])
        if w.get("law") == "difference-is-disjoint-from-the-subtrahend":
            d = common.run_engine([{"id": 0, "op": "st_diff", "a": w["a"], "b": w["b"]}])[0]
            i = common.run_engine([{"id": 0, "op": "st_intersect", "a": d["ok"], "b": w["b"]}])[0] if "ok" in d else {}
            failing = "ok" in i and not (i["ok"].get("all") == 0 and not i["ok"].get("data"))
        else:
            failing = False
        if kf.get("kind") == "known" and failing:
            run.known("class=%s %s" % (kf["class"], kf["what"]))
            cov["known_findings_reproduced"].append(kf["class"])
        if kf.get("kind") == "fixed" and failing:
            fails.append(("fixed-finding-returned:" + kf["class"], {"witness": kf["witness"]}))
    cov["trusted_base"] = [
        "Coq 8.16.1 kernel, vm_compute; no axioms",
        "Model/Bdd.v, Model/SemType.v: transliterations of bdd.rs / dnf.rs / subtype.rs / semtype.rs tied by syntactic comparison of "
        "every result (literal lists up to order)",
        "Rust harness harness/engine (public API of beff_core::subtyping), JSON operand syntax",
        "tag codes and SubTypeTag::all() regenerated from subtype.rs (Model/Generated.v)",
        "fuel: the theorems are about results of terminating calls; fuel sufficiency is observed (model never runs out), not proved"]
    if not ok:
        run.violation("proof", {"what": run.proof_broken, "theorems": THEOREMS}, no_input=not fails)
    for i, (kind, payload) in enumerate(fails[:5]):
        run.violation("spec-%d-%s" % (i, kind), dict(payload, clause=kind))
    if disagree and not fails:
        run.violation("correspondence", {
            "what": "correspondence with the engine no longer checks (%d cases); every implementation result still denotes the right set "
                    "on all explored operands" % len(disagree), "first": disagree[0]}, no_input=True)


def replay(d):
    print(d)
    return 0
