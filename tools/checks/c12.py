"""C12 — decode errors are present, bounded and point into the input."""
import collections
import random
from lib import common, rstage
from lib.vals import *
from checks.c03 import tree_tags, value_features, cb

THEOREMS = ["C12_at_most_ten", "C12_at_least_one_except_known", "C12_safeParse_reports_between_1_and_10_except_known",
            "C12_errors_point_into_the_input_except_known", "C12_refuted_index_key_received",
            "C12_refuted_no_error", "C12_refuted_report_throws", "C12_nonvacuous"]
IMPORTS = "From Beff Require Import Model.Cases Model.RuntimeSpec."


def evaluate(cases):
    jobs, exprs, index = [], [], []
    for ci, c in enumerate(cases):
        ops = []
        env, rt = env_coq(c["env"]), rt_coq(c["rt"])
        for vi, v in enumerate(c["vals"]):
            for strict in (False, True):
                o = {"v": val_canon(v), "strict": strict}
                ops += [dict(o, op="validate"), dict(o, op="safeParse"), dict(o, op="parse"), dict(o, op="printErrors")]
                exprs += ["run_validate %s %s %s %s" % (env, cb(strict), rt, val_coq(v)),
                          "run_safe_parse %s %s OrderInput %s %s" % (env, cb(strict), rt, val_coq(v)),
                          "run_parse %s %s OrderInput %s %s" % (env, cb(strict), rt, val_coq(v))]
                index.append((ci, vi, strict))
        jobs.append({"id": ci, "env": env_json(c["env"]), "rt": rt_json(c["rt"]), "ops": ops})
    js = [x for out in common.run_driver(jobs) for x in out]
    cq = common.run_coq_cases(IMPORTS, exprs, tag="C12")
    rows = []
    for k, (ci, vi, strict) in enumerate(index):
        rows.append({"case": ci, "val": vi, "strict": strict, "js": js[4 * k:4 * k + 4], "model": cq[3 * k:3 * k + 3]})
    spec_exprs, spec_idx = [], []
    for ri, r in enumerate(rows):
        sp = r["js"][1]
        if sp.startswith("err:"):
            try:
                es = parse_canon_errs(sp[4:])
            except ValueError:
                r["errs_ok"] = "unparsable"
                continue
            v = cases[r["case"]]["vals"][r["val"]]
            spec_exprs.append("show_bool (errors_ok 60 %s %s)" % (val_coq(v), coq_list(err_coq(e) for e in es)))
            spec_exprs.append("run_print_errors %s" % coq_list(err_coq(e) for e in es))
            spec_idx.append(ri)
            r["n_errors"] = len(es)
    sres = common.run_coq_cases(IMPORTS, spec_exprs, tag="C12spec")
    for k, ri in enumerate(spec_idx):
        rows[ri]["errs_ok"] = sres[2 * k]
        rows[ri]["rendered"] = sres[2 * k + 1]
    return rows


def failures(rows):
    out = []
    for r in rows:
        V, SP, P, PE = r["js"]
        kinds = []
        if V == "f":
            if SP.startswith("!"): kinds.append("safeParse-throws:" + SP.split(":")[0])
            elif SP.startswith("err:"):
                n = r.get("n_errors", 0)
                if n < 1: kinds.append("no-error-reported")
                if n > 10: kinds.append("more-than-ten")
                if n >= 1 and r.get("errs_ok") != "t": kinds.append("error-does-not-point-into-input")
            else: kinds.append("rejected-but-no-errors:" + SP[:20])
            if P.startswith("!") and not P.startswith("!ParseFailure"): kinds.append("parse-throws:" + P.split(":")[0])
            if PE.startswith("!"): kinds.append("printErrors-throws:" + PE.split(":")[0])
            if PE.startswith("DIFFERENT"): kinds.append("printErrors-nondeterministic")
            # rendering is a function of the errors only: the model's print_errors on the implementation's errors
            if PE.startswith("same:") and r.get("rendered") is not None and not r["rendered"].startswith("!") \
                    and PE[5:] != r["rendered"]:
                kinds.append("rendering-differs-from-spec")
        for k in kinds:
            out.append((r, k))
    return out


KNOWN_CLASSES = {
    "tuple_surplus_no_error": lambda k, tags, vf: "Tuple" in tags and k in ("no-error-reported",),
    "bigint_stringify": lambda k, tags, vf: "bigint" in vf and "StringifyBigInt" in k,
    "disc_proto_value": lambda k, tags, vf: "Disc" in tags and ("NotFunction" in k or "CannotConvert" in k),
    "index_key_received": lambda k, tags, vf: "Index" in tags and k == "error-does-not-point-into-input",
    "empty_allof_no_error": lambda k, tags, vf: "AllOf" in tags and k == "no-error-reported",
}


def late_error_cases(seed, n):
    """containers longer than the cap of ten reported errors whose only wrong element comes late (index 10 and beyond): the
    value is rejected, so at least one error must be reported, and it must point at that element"""
    r = random.Random(seed)
    leaves = [(("Typeof", "string"), S("a"), I(1)), (("Typeof", "number"), I(2), S("x")), (("Typeof", "boolean"), B(True), NUL),
              (("Const", "k"), S("k"), S("q")), (("Object", [("a", ("Typeof", "number"))], []), OBJ([("a", I(1))]), OBJ([("a", S("z"))]))]
    cases = []
    for i in range(n):
        t, good, bad = r.choice(leaves)
        length = r.choice([10, 11, 12, 15, 23])
        pos = r.randrange(10, length + 1)
        items = [good] * length
        items.insert(pos, bad)
        shape = i % 6
        if shape == 0: rt, v = ("Array", t), ARR(items)
        elif shape == 1: rt, v = ("Object", [("xs", ("Array", t))], []), OBJ([("xs", ARR(items))])
        elif shape == 2: rt, v = ("Array", ("Array", t)), ARR([ARR([good])] * 11 + [ARR(items)])
        elif shape == 3: rt, v = ("Tuple", [t], t), ARR(items)
        elif shape == 4: rt, v = ("Array", ("Object", [("p", t)], [])), ARR([OBJ([("p", x)]) for x in items])
        else: rt, v = ("AnyOf", [("Array", t), ("Typeof", "number")]), ARR(items)
        cases.append({"env": [], "rt": rt, "vals": [v, ARR(items[:pos])] if shape in (0, 3, 5) else [v], "source": "late-error"})
    return cases


def check(run):
    ok = run.prove("Props.C12", THEOREMS, ["Props/C12.vo"])
    common.ensure_harness()
    quick = run.tier == "quick"
    cases = rstage.load_corpus("C12")
    cases += rstage.gen_cases(run.seed + 1201, 200 if quick else 3000, 6 if quick else 12, depth=3)
    cases += rstage.gen_forced(run.seed + 1202, 120 if quick else 2400, 8)
    cases += late_error_cases(run.seed + 1203, 24 if quick else 300)
    rows = evaluate(cases)
    cov = run.coverage
    disagree = [r for r in rows if r["js"][:3] != r["model"]]
    fails = failures(rows)
    rejected = [r for r in rows if r["js"][0] == "f"]
    cov["evaluations"] = len(rows)
    cov["distinct_nontrivial"] = len({(r["case"], r["val"]) for r in rejected})
    cov["rule"] = ("random + forced-shape validator trees x type-directed values (near misses dominate) in default and strict "
                   "mode; non-trivial = rejected by validate, so reportDecodeError runs and its errors are judged")
    cov["correspondence"]["validate/safeParse(errors)/parse(message) impl vs model"] = {
        "cases": len(rows), "disagreements": len(disagree),
        "distribution": {"constructors": rstage.histogram(cases),
                         "error_counts": dict(collections.Counter(str(r.get("n_errors")) for r in rejected))}}
    cov["spec_checks"]["clauses of C12 on the implementation's errors"] = {
        "judged": len(rejected), "failures": dict(collections.Counter(k for _, k in fails))}
    cov["samples"] = [dict(rstage.case_text(cases[r["case"]], cases[r["case"]]["vals"][r["val"]]), impl=r["js"])
                      for r in rejected[:3]]
    cov["trusted_base"] = [
        "Coq 8.16.1 kernel, vm_compute; no axioms",
        "hand-written model Model/Report.v of reportDecodeError/buildUnionError/printErrors, tied by the correspondence stream",
        "spec predicate Model/RuntimeSpec.v errors_ok/points_into (path resolution) evaluated on the implementation's errors",
        "tsstrip, Node 20 driver, canonical value/error syntax",
        "values: finite trees, printable ASCII strings, dates >= 1970"]
    known = common.load_known("C12")
    listed = {k["class"] for k in known if k.get("kind") == "known"}
    new_fail, seen = [], collections.Counter()
    for r, kind in fails:
        c = cases[r["case"]]
        same_as_model = r["js"][:3] == r["model"]
        tags, vf = tree_tags(c), value_features(c["vals"][r["val"]])
        cls = [n for n, pred in KNOWN_CLASSES.items() if n in listed and pred(kind, tags, vf)]
        if same_as_model and cls:
            seen[cls[0]] += 1
            continue
        new_fail.append((r, kind))
    cov["spec_checks"]["failures inside listed classes"] = dict(seen)
    for k in known:
        w = eval(k["witness"], {"__builtins__": {}}, {"None": None, "True": True, "False": False})
        wrows = evaluate([{"env": w["env"], "rt": w["rt"], "vals": [w["value"]]}])
        failing = [kd for _, kd in failures(wrows)]
        if k.get("kind") == "known" and failing:
            run.known("class=%s %s" % (k["class"], k["what"]))
            cov["known_findings_reproduced"].append(k["class"])
        if k.get("kind") == "fixed" and failing:
            run.violation("fixed-finding-returned-" + k["class"], {"witness": k["witness"], "failing": failing})
    if not ok:
        run.violation("proof", {"what": run.proof_broken, "theorems": THEOREMS}, no_input=not new_fail)
    for r, kind in new_fail[:5]:
        c = cases[r["case"]]
        run.violation("spec-%s-%s-%s" % (r["case"], r["val"], kind.replace(":", "_").replace("!", "")), {
            "clause": kind, "input": rstage.case_text(c, c["vals"][r["val"]]), "strict": r["strict"],
            "impl": r["js"], "model": r["model"], "errors_ok": r.get("errs_ok")})
    if disagree and not new_fail:
        r = disagree[0]
        c = cases[r["case"]]
        run.violation("correspondence", {
            "what": "correspondence stream 'validate/safeParse(errors)/parse(message) impl vs model' no longer checks "
                    "(%d cases); no input violating C12 outside the listed classes was found" % len(disagree),
            "first": dict(rstage.case_text(c, c["vals"][r["val"]]), strict=r["strict"], impl=r["js"][:3], model=r["model"])},
            no_input=True)


def replay(d):
    print(d)
    return 0
