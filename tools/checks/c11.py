"""C11 — strict mode rejects exactly the values that carry undeclared keys."""
import collections
from lib import common, rstage
from lib.vals import *

THEOREMS = ["C11_refuted", "C11_except_known", "C11_strict_implies_default", "C11_nonvacuous"]
IMPORTS = "From Beff Require Import Model.Cases Model.StrictSpec."


def coq_exprs(c, v):
    env, rt = env_coq(c["env"]), rt_coq(c["rt"])
    vv = val_coq(v)
    return [
        "run_validate %s false %s %s" % (env, rt, vv),
        "run_validate %s true %s %s" % (env, rt, vv),
        "show_res show_bool (no_extra F0 %s FUEL [] %s %s)" % (env, rt, vv),
    ]


def evaluate(cases):
    jobs, exprs, index = [], [], []
    for ci, c in enumerate(cases):
        ops = []
        for vi, v in enumerate(c["vals"]):
            ops.append({"op": "validate", "v": val_canon(v), "strict": False})
            ops.append({"op": "validate", "v": val_canon(v), "strict": True})
            exprs += coq_exprs(c, v)
            index.append((ci, vi))
        jobs.append({"id": ci, "env": env_json(c["env"]), "rt": rt_json(c["rt"]), "ops": ops})
    for ci, c in enumerate(cases):
        exprs.append("show_bool (c11_plain_env %s && c11_plain %s)" % (env_coq(c["env"]), rt_coq(c["rt"])))
    js = [x for out in common.run_driver(jobs) for x in out]
    cq = common.run_coq_cases(IMPORTS, exprs, tag="C11")
    n = len(index)
    plain = [x == "t" for x in cq[3 * n:]]
    rows = []
    for k, (ci, vi) in enumerate(index):
        rows.append({"case": ci, "val": vi, "js_lax": js[2 * k], "js_strict": js[2 * k + 1],
                     "m_lax": cq[3 * k], "m_strict": cq[3 * k + 1], "ne": cq[3 * k + 2], "plain": plain[ci]})
    return rows


def judge(row):
    """The property itself, evaluated on the implementation's answers with the spec-side no_extra."""
    jl, js_, ne = row["js_lax"], row["js_strict"], row["ne"]
    if jl not in ("t", "f") or js_ not in ("t", "f"):
        return None          # an exception: judged by C03, not here
    if jl == "f":
        return js_ == "f"
    if ne not in ("t", "f"):
        return None
    return js_ == ne


def check(run):
    ok = run.prove("Props.C11", THEOREMS, ["Props/C11.vo"])
    common.ensure_harness()
    quick = run.tier == "quick"
    cases = rstage.load_corpus("C11")
    cases += rstage.gen_cases(run.seed, 260 if quick else 3000, 8 if quick else 16, depth=3, strict=True)
    cases += rstage.gen_cases(run.seed + 7919, 60 if quick else 800, 8, depth=4, strict=True)
    cases += rstage.gen_forced(run.seed + 11, 80 if quick else 1600, 8, strict=True)
    rows = evaluate(cases)
    cov = run.coverage
    disagree = [r for r in rows if r["js_lax"] != r["m_lax"] or r["js_strict"] != r["m_strict"]]
    spec_fail = [r for r in rows if judge(r) is False]
    judged = sum(1 for r in rows if judge(r) is not None)
    cov["evaluations"] = len(rows)
    cov["distinct_nontrivial"] = len({(r["case"], r["val"]) for r in rows if r["js_lax"] == "t"})
    cov["rule"] = ("random validator trees (depth<=4, named/recursive environments) x type-directed values "
                   "(members, one-mutation near misses, unrelated); non-trivial = accepted in default mode, so the "
                   "strict answer depends on the extra-key logic")
    cov["correspondence"]["validate(default,strict) impl vs model"] = {
        "cases": len(rows), "disagreements": len(disagree),
        "distribution": {"constructors": rstage.histogram(cases),
                         "answers": dict(collections.Counter("default=%s strict=%s" % (r["js_lax"], r["js_strict"]) for r in rows))}}
    cov["spec_checks"]["impl strict == impl default && no_extra"] = {"judged": judged, "failures": len(spec_fail)}
    cov["samples"] = [dict(rstage.case_text(cases[r["case"]], cases[r["case"]]["vals"][r["val"]]),
                           js_lax=r["js_lax"], js_strict=r["js_strict"], no_extra=r["ne"]) for r in rows[:3]]
    cov["trusted_base"] = [
        "Coq 8.16.1 kernel, vm_compute (no native_compute); no axioms (Print Assumptions: closed)",
        "hand-written model Model/Validate.v of codegen-v2.ts validate(), tied by the correspondence stream above",
        "spec Model/StrictSpec.v (no_extra) is the reading of 'declared keys' the theorem uses",
        "tsstrip (swc-based type stripper), Node 20 driver harness/js/driver.mjs, value syntax canon.mjs",
        "values: finite trees; no integer-like/duplicate own keys; formats = 4 registered test formats"]
    run.assumptions += ["custom formats are pure total functions", "JS values are finite trees without getters/proxies"]

    known = common.load_known("C11")
    new_fail = []
    for r in spec_fail:
        c = cases[r["case"]]
        same_as_model = (r["js_lax"] == r["m_lax"] and r["js_strict"] == r["m_strict"])
        if same_as_model and not r["plain"] and any(k["class"] == "allof_two_members" and k.get("kind") == "known" for k in known):
            continue     # the listed call site: an intersection with >= 2 members at run time
        new_fail.append(r)
    # listed findings: replay each witness
    for k in known:
        w = eval(k["witness"], {"__builtins__": {}}, {"None": None, "True": True, "False": False})
        wr = evaluate([{"env": w["env"], "rt": w["rt"], "vals": [w["value"]]}])[0]
        failing = judge(wr) is False
        if k.get("kind") == "known" and failing:
            run.known("class=%s %s" % (k["class"], k["what"]))
            cov["known_findings_reproduced"].append(k["class"])
        if k.get("kind") == "fixed" and failing:
            new_fail.append(dict(wr, case=None, witness=k["witness"]))
    if not ok:
        run.violation("proof", {"what": run.proof_broken, "theorems": THEOREMS}, no_input=not new_fail)
    for r in new_fail[:5]:
        c = cases[r["case"]] if r.get("case") is not None else None
        run.violation("spec-%s-%s" % (r.get("case"), r.get("val")), {
            "stream": "impl strict == impl default && no_extra",
            "input": rstage.case_text(c, c["vals"][r["val"]]) if c else r.get("witness"),
            "impl": {"default": r["js_lax"], "strict": r["js_strict"]},
            "model": {"default": r["m_lax"], "strict": r["m_strict"]},
            "spec_no_extra": r["ne"], "plain": r["plain"]})
    if disagree and not new_fail:
        r = disagree[0]
        c = cases[r["case"]]
        run.violation("correspondence", {
            "what": "correspondence stream 'validate(default,strict) impl vs model' no longer checks: "
                    "Model/Validate.v and codegen-v2.ts disagree (%d cases); no input violating C11 was found" % len(disagree),
            "first": dict(rstage.case_text(c, c["vals"][r["val"]]),
                          impl=[r["js_lax"], r["js_strict"]], model=[r["m_lax"], r["m_strict"]])}, no_input=True)


def replay(d):
    print(d)
    return 0
