"""C03 — validate / safeParse / parse agree; parsed data is a faithful projection of the input."""
import collections
import random
import re
from lib import common, rstage
from lib.vals import *

THEOREMS = ["C03_safeParse_success_iff_validate", "C03_safeParse_failure_means_rejected",
            "C03_parse_returns_iff_safeParse_succeeds", "C03_parse_failure_means_rejected",
            "C03_validate_never_throws_except_known", "C03_refuted_validate_throws", "C03_refuted_projection",
            "C03_data_is_accepted_again_except_known", "C03_refuted_for_typed_arrays", "C03_nonvacuous"]
IMPORTS = "From Beff Require Import Model.Cases Model.RuntimeSpec."
OPTS = [(False, "input"), (False, "sorted"), (True, "input"), (True, "sorted")]
PROTO_NAMES = {"constructor", "__defineGetter__", "__defineSetter__", "hasOwnProperty", "__lookupGetter__",
               "__lookupSetter__", "isPrototypeOf", "propertyIsEnumerable", "toString", "valueOf",
               "toLocaleString", "__proto__", "prototype"}


def cb(b):
    return "true" if b else "false"


def co(o):
    return "OrderInput" if o == "input" else "OrderSorted"


def val_nodes(v):
    yield v
    t = v[0]
    if t in ("arr", "set"):
        for x in v[1]: yield from val_nodes(x)
    elif t == "obj":
        for _, x in v[1]: yield from val_nodes(x)
    elif t == "map":
        for a, b in v[1]:
            yield from val_nodes(a)
            yield from val_nodes(b)


def accepts_undefined(r, envd, depth=0):
    t = r[0]
    if depth > 8: return False
    if t in ("Any", "Nullish"): return True
    if t == "Const": return r[1] is None
    if t == "AnyOfConsts": return any(x is None for x in r[1])
    if t == "AnyOf": return any(accepts_undefined(x, envd, depth + 1) for x in r[1])
    if t == "AllOf": return False
    if t == "Meta": return accepts_undefined(r[2], envd, depth + 1)
    if t == "Ref" and r[1] in envd: return accepts_undefined(envd[r[1]], envd, depth + 1)
    return False


def only_nullish(r, envd, depth=0):
    t = r[0]
    if depth > 8: return False
    if t == "Nullish": return True
    if t == "Const": return r[1] is None
    if t == "AnyOfConsts": return bool(r[1]) and all(x is None for x in r[1])
    if t == "AnyOf": return bool(r[1]) and all(only_nullish(x, envd, depth + 1) for x in r[1])
    if t == "Meta": return only_nullish(r[2], envd, depth + 1)
    if t == "Ref" and r[1] in envd: return only_nullish(envd[r[1]], envd, depth + 1)
    return False


def tree_tags(c):
    tags = set()
    envd = dict(c["env"])
    for r in [c["rt"]] + [b for _, b in c["env"]]:
        for n in rt_nodes(r):
            if n[0] == "Object" and any(x[0] != "Optional" and accepts_undefined(x, envd) for _, x in n[1]):
                tags.add("RequiredAcceptsUndefined")
            if n[0] == "Object" and any(x[0] == "Optional" and only_nullish(x[1], envd) for _, x in n[1]):
                tags.add("OptionalNullish")
    for r in [c["rt"]] + [b for _, b in c["env"]]:
        for n in rt_nodes(r):
            tags.add(n[0])
            if n[0] == "Object" and n[2]:
                tags.add("Index")
            if n[0] == "Object" and any(k in PROTO_NAMES or k == "__proto__" for k, _ in n[1]):
                tags.add("ProtoKey")
            if n[0] == "Object" and any(k == "length" for k, _ in n[1]):
                tags.add("LengthKey")
            if n[0] == "Disc":
                inline = [(k, m) for k, m in n[4] if m[0] != "Ref"]
                san = [re.sub(r"[^a-zA-Z0-9]+", " ", k).strip().title().replace(" ", "") or "Variant" for k, _ in inline]
                if len(set(san)) < len(san): tags.add("DiscKeysCollide")
                if len({repr(m) for _, m in inline}) < len(inline): tags.add("DiscSharedVariant")
    return tags


def value_features(v):
    f = set()
    for n in val_nodes(v):
        if n[0] == "big": f.add("bigint")
        if n[0] == "typed" and n[1].startswith("Big") and n[2]: f.add("bigint")
        if n[0] == "obj":
            for k, _ in n[1]:
                if k in PROTO_NAMES: f.add("protokey")
                if k == "__proto__": f.add("__proto__")
        if n[0] in ("map", "set", "date", "typed", "re"): f.add("nonplain")
        if n[0] == "typed": f.add("typed")
    return f


def evaluate(cases):
    jobs, exprs, index = [], [], []
    for ci, c in enumerate(cases):
        ops = []
        env, rt = env_coq(c["env"]), rt_coq(c["rt"])
        for vi, v in enumerate(c["vals"]):
            for (strict, order) in OPTS:
                o = {"v": val_canon(v), "strict": strict, "order": order}
                ops += [dict(o, op="validate"), dict(o, op="safeParse"), dict(o, op="parse"), dict(o, op="parse2")]
                exprs += ["run_validate %s %s %s %s" % (env, cb(strict), rt, val_coq(v)),
                          "run_safe_parse %s %s %s %s %s" % (env, cb(strict), co(order), rt, val_coq(v)),
                          "run_parse %s %s %s %s %s" % (env, cb(strict), co(order), rt, val_coq(v))]
                index.append((ci, vi, strict, order))
        jobs.append({"id": ci, "env": env_json(c["env"]), "rt": rt_json(c["rt"]), "ops": ops})
    js = [x for out in common.run_driver(jobs) for x in out]
    cq = common.run_coq_cases(IMPORTS, exprs, tag="C03")
    rows = []
    for k, (ci, vi, strict, order) in enumerate(index):
        rows.append({"case": ci, "val": vi, "strict": strict, "order": order,
                     "js": js[4 * k:4 * k + 4], "model": cq[3 * k:3 * k + 3]})
    # spec side, second pass: judge the implementation's parsed data
    spec_exprs, spec_idx = [], []
    for ri, r in enumerate(rows):
        sp = r["js"][1]
        r["data"] = None
        if sp.startswith("ok:"):
            try:
                d = parse_canon_val(sp[3:])
            except ValueError:
                continue
            r["data"] = d
            c = cases[r["case"]]
            v = c["vals"][r["val"]]
            spec_exprs.append("spec_revalidate %s %s %s %s" % (env_coq(c["env"]), cb(r["strict"]), rt_coq(c["rt"]), val_coq(d)))
            spec_exprs.append("show_bool (is_projection 100 %s %s)" % (val_coq(d), val_coq(v)))
            # "consists only of declared parts of the input": the data is also accepted when undeclared keys are disallowed
            spec_exprs.append("spec_revalidate %s true %s %s" % (env_coq(c["env"]), rt_coq(c["rt"]), val_coq(d)))
            spec_idx.append(ri)
    sres = common.run_coq_cases(IMPORTS, spec_exprs, tag="C03spec")
    for k, ri in enumerate(spec_idx):
        rows[ri]["revalidate"] = sres[3 * k]
        rows[ri]["projection"] = sres[3 * k + 1]
        rows[ri]["declared_only"] = sres[3 * k + 2]
    return rows


def sort_keys(v):
    t = v[0]
    if t == "arr": return ("arr", [sort_keys(x) for x in v[1]])
    if t == "set": return ("set", [sort_keys(x) for x in v[1]])
    if t == "obj": return ("obj", sorted(((k, sort_keys(x)) for k, x in v[1]), key=lambda kv: kv[0]))
    if t == "map": return ("map", [(sort_keys(a), sort_keys(b)) for a, b in v[1]])
    return v


def failures(rows):
    """The property's clauses, evaluated on the implementation's answers. Returns [(row, kind)]."""
    out = []
    by_key = {}
    for r in rows:
        by_key[(r["case"], r["val"], r["strict"], r["order"])] = r
    for r in rows:
        V, SP, P, P2 = r["js"]
        kinds = []
        if V not in ("t", "f"): kinds.append("validate-throws:" + V.split(":")[0])
        if SP.startswith("MUTATED"): kinds.append("input-mutated")
        if SP.startswith("!"): kinds.append("safeParse-throws:" + SP.split(":")[0])
        if P.startswith("!") and not P.startswith("!ParseFailure"): kinds.append("parse-throws:" + P.split(":")[0])
        if V in ("t", "f"):
            if SP.startswith("ok:") != (V == "t") and not SP.startswith("!"): kinds.append("safeParse-disagrees-with-validate")
            if P.startswith("ok:") != (V == "t") and not (P.startswith("!") and not P.startswith("!ParseFailure")):
                kinds.append("parse-disagrees-with-validate")
        if SP.startswith("ok:") and P.startswith("ok:") and SP != P: kinds.append("parse-differs-from-safeParse")
        if r.get("data") is not None:
            if r.get("revalidate") != "t": kinds.append("data-not-revalidated")
            if r.get("projection") != "t": kinds.append("data-not-a-projection")
            if r.get("revalidate") == "t" and r.get("declared_only") == "f": kinds.append("data-has-undeclared-parts")
            if P.startswith("ok:") and P2 != P: kinds.append("not-idempotent")
            if r["order"] == "sorted":
                o = by_key.get((r["case"], r["val"], r["strict"], "input"))
                if o is not None and o.get("data") is not None and sort_keys(o["data"]) != sort_keys(r["data"]):
                    kinds.append("key-order-changes-content")
        for k in kinds:
            out.append((r, k))
    return out


# the recorded call sites (known-findings.jsonl, property C03): class -> predicate(kind, tree tags, value features)
KNOWN_CLASSES = {
    "disc_proto_value": lambda k, tags, vf: "Disc" in tags and "NotFunction" in k,
    "disc_unprimitive_value": lambda k, tags, vf: "Disc" in tags and "CannotConvert" in k,
    "bigint_stringify": lambda k, tags, vf: "bigint" in vf and "StringifyBigInt" in k,
    "union_deepmerge": lambda k, tags, vf: "AnyOf" in tags and k in (
        "data-not-revalidated", "data-not-a-projection", "data-has-undeclared-parts", "not-idempotent", "key-order-changes-content",
        "parse-throws:!Internal", "safeParse-throws:!Internal"),
    "allof_spread": lambda k, tags, vf: "AllOf" in tags and k in (
        "data-not-revalidated", "data-not-a-projection", "data-has-undeclared-parts", "not-idempotent", "key-order-changes-content",
        "parse-throws:!Internal", "safeParse-throws:!Internal"),
    "inherited_length_satisfies_declared_property": lambda k, tags, vf: "typed" in vf and "LengthKey" in tags and k in (
        "data-not-revalidated", "not-idempotent"),
    "proto_named_keys": lambda k, tags, vf: "protokey" in vf and k in (
        "data-not-revalidated", "data-not-a-projection", "data-has-undeclared-parts", "not-idempotent", "key-order-changes-content"),
}


def builtin_union_cases(seed, n):
    """unions of object types of which several accept the same input while a built-in value (typed array, Date, RegExp-like
    leaf, bigint) sits at the same position in all of them: the union's deep merge of the members' results must keep that leaf"""
    r = random.Random(seed)
    leaves = [(("TypedArray", "Uint8Array"), TYPED("Uint8Array", [1, 2, 3])), (("TypedArray", "Float64Array"), TYPED("Float64Array", [7])),
              (("Date",), DATE(86400000)), (("BigInt",), BIG(5)), (("Typeof", "string"), S("s"))]
    cases = []
    for i in range(n):
        t, v = r.choice(leaves[:3] if i % 2 == 0 else leaves)
        a = ("Object", [("data", t), ("name", ("Optional", ("Typeof", "string")))], [])
        b = ("Object", [("data", t), ("offset", ("Optional", ("Typeof", "number")))], [])
        u = ("AnyOf", [a, b])
        val = OBJ([("data", v)])
        shape = i % 4
        if shape == 0: rt, vals, env = u, [val, OBJ([("data", v), ("name", S("x"))])], []
        elif shape == 1: rt, vals, env = ("Array", u), [ARR([val, val])], []
        elif shape == 2: rt, vals, env = ("Object", [("p", ("Ref", "U"))], []), [OBJ([("p", val)])], [("U", u)]
        else: rt, vals, env = ("AnyOf", [a, b, ("Object", [("data", t)], [])]), [val], []
        cases.append({"env": env, "rt": rt, "vals": vals, "source": "builtin-union"})
    return cases


def check(run):
    ok = run.prove("Props.C03", THEOREMS, ["Props/C03.vo"])
    common.ensure_harness()
    quick = run.tier == "quick"
    cases = rstage.load_corpus("C03")
    cases += rstage.gen_cases(run.seed + 303, 150 if quick else 2500, 5 if quick else 10, depth=3)
    cases += rstage.gen_cases(run.seed + 304, 30 if quick else 500, 5, depth=4)
    cases += rstage.gen_forced(run.seed + 305, 80 if quick else 1600, 6)
    cases += builtin_union_cases(run.seed + 306, 16 if quick else 200)
    rows = evaluate(cases)
    cov = run.coverage
    disagree = [r for r in rows if r["js"][:3] != r["model"]]
    fails = failures(rows)
    cov["evaluations"] = len(rows)
    cov["distinct_nontrivial"] = len({(r["case"], r["val"]) for r in rows if r["js"][1].startswith("ok:")})
    cov["rule"] = ("random validator trees x type-directed values x 4 option combinations; non-trivial = accepted, so "
                   "parseAfterValidation runs and its output is judged (re-validation, projection, idempotence, key order)")
    cov["correspondence"]["validate/safeParse/parse impl vs model"] = {
        "cases": len(rows), "disagreements": len(disagree),
        "distribution": {"constructors": rstage.histogram(cases),
                         "outcomes": dict(collections.Counter(r["js"][1][:3] for r in rows))}}
    cov["spec_checks"]["clauses of C03 on the implementation's outputs"] = {
        "judged": len(rows), "failures": dict(collections.Counter(k for _, k in fails))}
    cov["samples"] = [dict(rstage.case_text(cases[r["case"]], cases[r["case"]]["vals"][r["val"]]),
                           strict=r["strict"], order=r["order"], impl=r["js"]) for r in rows[:3]]
    cov["trusted_base"] = [
        "Coq 8.16.1 kernel, vm_compute; no axioms",
        "hand-written models Model/{Validate,Parse,Report}.v of codegen-v2.ts, tied by the correspondence stream",
        "spec predicates Model/RuntimeSpec.v (is_projection) and re-validation by the model's validate",
        "tsstrip, Node 20 driver, canonical value syntax; inputs deep-frozen and compared before/after (mutation)",
        "values: finite trees, no getters/proxies, no integer-like keys"]
    known = common.load_known("C03")
    listed = {k["class"] for k in known if k.get("kind") == "known"}
    new_fail, seen_classes = [], collections.Counter()
    for r, kind in fails:
        c = cases[r["case"]]
        same_as_model = r["js"][:3] == r["model"]
        tags, vf = tree_tags(c), value_features(c["vals"][r["val"]])
        cls = [n for n, pred in KNOWN_CLASSES.items() if n in listed and pred(kind, tags, vf)]
        if same_as_model and cls:
            seen_classes[cls[0]] += 1
            continue
        new_fail.append((r, kind))
    cov["spec_checks"]["failures inside listed classes"] = dict(seen_classes)
    # replay the listed witnesses
    for k in known:
        w = eval(k["witness"], {"__builtins__": {}}, {"None": None, "True": True, "False": False})
        wrows = evaluate([{"env": w["env"], "rt": w["rt"], "vals": [w["value"]]}])
        failing = [kd for _, kd in failures(wrows)]
        if k.get("kind") == "known" and failing:
            run.known("class=%s %s" % (k["class"], k["what"]))
            cov["known_findings_reproduced"].append(k["class"])
        if k.get("kind") == "fixed" and failing:
            run.violation("fixed-finding-returned-" + k["class"], {"witness": k["witness"], "failing": failing})
    if not ok:
        run.violation("proof", {"what": run.proof_broken, "theorems": THEOREMS}, no_input=not new_fail)
    for r, kind in new_fail[:5]:
        c = cases[r["case"]]
        run.violation("spec-%s-%s-%s" % (r["case"], r["val"], kind.replace(":", "_").replace("!", "")), {
            "clause": kind, "input": rstage.case_text(c, c["vals"][r["val"]]),
            "options": {"strict": r["strict"], "order": r["order"]},
            "impl": r["js"], "model": r["model"], "revalidate": r.get("revalidate"), "projection": r.get("projection")})
    if disagree and not new_fail:
        r = disagree[0]
        c = cases[r["case"]]
        run.violation("correspondence", {
            "what": "correspondence stream 'validate/safeParse/parse impl vs model' no longer checks "
                    "(%d cases); no input violating C03 outside the listed classes was found" % len(disagree),
            "first": dict(rstage.case_text(c, c["vals"][r["val"]]), options=[r["strict"], r["order"]],
                          impl=r["js"][:3], model=r["model"])}, no_input=True)


def replay(d):
    print(d)
    return 0
