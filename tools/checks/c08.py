"""C08 — meaning-preserving rewrites of the source do not change validators."""
import collections
import random
from lib import common, cstage, tsgen
from lib.vals import *

THEOREMS = ["C08_literal_set_dispatch_invisible", "C08_discriminator_dispatch_invisible",
            "C08_property_order_invisible_to_hash256", "C08_comments_invisible_to_hash256",
            "C08_property_order_invisible_to_hash", "C08_nonvacuous"]

# ---------------------------------------------------------------- generic declarations against their instantiation by hand
PRIMS = ["string", "number", "boolean", "null"]


def show_ty(t):
    k = t[0]
    if k == "prim": return t[1]
    if k == "lit": return t[1]
    if k in ("param", "ref"): return t[1]
    if k == "arr": return "Array<%s>" % show_ty(t[1])
    if k == "tuple": return "[%s]" % ", ".join(show_ty(x) for x in t[1])
    if k == "union": return "(%s)" % " | ".join(show_ty(x) for x in t[1])
    if k == "obj": return "{ %s }" % "; ".join("%s%s: %s" % (n, "?" if o else "", show_ty(x)) for n, o, x in t[1])
    if k == "app": return "%s<%s>" % (t[1], ", ".join(show_ty(x) for x in t[2]))
    raise ValueError(t)


def inst(t, env, decls, aliases, depth=0):
    """substitute by hand: parameters by their arguments, applications and references by their bodies"""
    if depth > 12: raise RecursionError
    k = t[0]
    if k in ("prim", "lit"): return t
    if k == "param": return env[t[1]]
    if k == "ref": return inst(aliases[t[1]], {}, decls, aliases, depth + 1)
    if k == "arr": return ("arr", inst(t[1], env, decls, aliases, depth))
    if k == "tuple": return ("tuple", [inst(x, env, decls, aliases, depth) for x in t[1]])
    if k == "union": return ("union", [inst(x, env, decls, aliases, depth) for x in t[1]])
    if k == "obj": return ("obj", [(n, o, inst(x, env, decls, aliases, depth)) for n, o, x in t[1]])
    if k == "app":
        params, kind, body = decls[t[1]][:3]
        args = [inst(x, env, decls, aliases, depth) for x in t[2]]
        env2 = dict(zip(params, args))
        own = inst(body, env2, decls, aliases, depth + 1)
        ext = decls[t[1]][3] if len(decls[t[1]]) > 3 else None
        if ext is not None:
            base = inst(("app", ext[0], ext[1]), env2, decls, aliases, depth + 1)
            keys = {n for n, _, _ in own[1]}
            return ("obj", [f for f in base[1] if f[0] not in keys] + list(own[1]))
        return own
    raise ValueError(t)


def generic_pair(r):
    """a program with generic aliases / interfaces whose parameter names collide with each other and with a global alias,
    and the same type written out by hand without any declaration"""
    aliases, decls, order = {}, {}, []
    pnames = ["T", "U", "K"]
    global_t = r.random() < 0.5
    if global_t:
        aliases["T"] = ("prim", r.choice(["number", "boolean"]))          # a global alias named like a type parameter
        aliases["Inner"] = ("obj", [("v", False, ("ref", "T"))])
    def closed(d):
        q = r.random()
        if d <= 0 or q < 0.45: return ("prim", r.choice(PRIMS)) if r.random() < 0.8 else ("lit", r.choice(['"a"', '"b"', "1"]))
        if q < 0.65: return ("arr", closed(d - 1))
        if q < 0.8: return ("obj", [(n, r.random() < 0.3, closed(d - 1)) for n in r.sample(["a", "b", "c"], r.randrange(1, 3))])
        if q < 0.9: return ("union", [closed(d - 1), ("prim", "null")])
        return ("tuple", [closed(d - 1) for _ in range(r.randrange(1, 3))])
    def leaf(params):
        q = r.random()
        if q < 0.6: return ("param", r.choice(params))
        if q < 0.75 and global_t: return ("ref", "Inner")
        if q < 0.85 and global_t and "T" not in params: return ("ref", "T")
        return closed(0)
    def body(params, d, must_obj=False):
        q = r.random()
        if must_obj or (d > 0 and q < 0.3):
            return ("obj", [(n, r.random() < 0.25, body(params, d - 1)) for n in r.sample(["a", "b", "c", "v", "w"], r.randrange(1, 4))])
        if d <= 0: return leaf(params)
        if q < 0.65 and order:
            g = r.choice(order)
            # the argument is built from this declaration's parameters: not the bare parameter in most cases
            return ("app", g, [r.choice([("arr", ("param", r.choice(params))), ("param", r.choice(params)),
                                         ("obj", [("k", False, ("param", r.choice(params)))]), closed(1)]) for _ in decls[g][0]])
        if q < 0.75: return ("arr", body(params, d - 1))
        if q < 0.85: return ("union", [body(params, d - 1), ("prim", "null")])
        return leaf(params)
    for i in range(r.randrange(2, 4)):
        params = r.sample(pnames, r.choice([1, 1, 2]))
        kind = r.choice(["type", "type", "interface"])
        b = body(params, 2, must_obj=(kind == "interface"))
        ext = None
        bases = [n for n in order if decls[n][1] == "interface"]
        if kind == "interface" and bases and r.random() < 0.5:
            # interface G1<T> extends G0<T[]>: the extends clause mentions the type parameters
            g = r.choice(bases)
            ext = (g, [r.choice([("param", r.choice(params)), ("arr", ("param", r.choice(params))), closed(1)]) for _ in decls[g][0]])
            # own keys differ from every inherited one, also along a chain of `extends` (a derived interface that redeclares an
            # inherited member with an incompatible type is not valid TypeScript)
            b = ("obj", [("e%d%s" % (i, n), o, x) for n, o, x in b[1]])
        decls["G%d" % i] = (params, kind, b, ext); order.append("G%d" % i)
    top = order[-1]
    main = ("app", top, [closed(1) for _ in decls[top][0]])
    lines = []
    for n, b in aliases.items(): lines.append("export type %s = %s;" % (n, show_ty(b)))
    for n in order:
        params, kind, b, ext = decls[n]
        if kind == "interface":
            ex = "" if ext is None else " extends %s<%s>" % (ext[0], ", ".join(show_ty(x) for x in ext[1]))
            lines.append("export interface %s<%s>%s { %s }" % (n, ", ".join(params), ex, "; ".join("%s%s: %s" % (k, "?" if o else "", show_ty(x)) for k, o, x in b[1])))
        else:
            lines.append("export type %s<%s> = %s;" % (n, ", ".join(params), show_ty(b)))
    lines.append("export type Main = %s;" % show_ty(main))
    p1 = "\n".join(lines) + "\nparse.buildParsers<{ Main: Main }>();"
    p2 = "export type Main = %s;\nparse.buildParsers<{ Main: Main }>();" % show_ty(inst(main, {}, decls, aliases))
    return p1, p2


def generic_stream(run, n, fails, cov):
    r = random.Random(run.seed + 808)
    pairs = []
    while len(pairs) < n:
        try: pairs.append(generic_pair(r))
        except RecursionError: pass
    res = cstage.compile_projects([[("entry.ts", a)] for a, _ in pairs] + [[("entry.ts", b)] for _, b in pairs])
    dumps = cstage.dump_modules(res[n:])
    items, meta = [], []
    for i, (a, b) in enumerate(pairs):
        ra, rb = res[i], res[n + i]
        if ra.get("outcome") != "code" or rb.get("outcome") != "code":
            if ra.get("outcome") != rb.get("outcome"):
                fails.append(("compilation-outcome-differs", {"program": a, "rewritten": b, "rewrites": ["generic declarations instantiated by hand"],
                                                               "original": ra.get("outcome"), "rewritten_outcome": rb.get("outcome"),
                                                               "diags": (ra.get("diags") or rb.get("diags") or [None])[:2]}))
            continue
        if dumps[i] is None or "error" in dumps[i]: continue
        pv = cstage.values_for_parsers(dumps[i], run.seed + 8000 + i, 14)
        items.append((ra["code"], pv, [])); items.append((rb["code"], pv, [])); meta.append(i)
    ev = cstage.eval_modules(items)
    judged = 0
    for k, i in enumerate(meta):
        ea, eb = ev[2 * k], ev[2 * k + 1]
        a, b = pairs[i]
        if "error" in ea or "error" in eb:
            fails.append(("module-does-not-load", {"program": a, "rewritten": b, "original": ea.get("error"), "rewritten_error": eb.get("error")}))
            continue
        judged += 1
        va, vb = ea["Main"]["validate"], eb["Main"]["validate"]
        if va != vb:
            vals = items[2 * k][1]["Main"]
            j = next(x for x in range(len(va)) if va[x] != vb[x])
            fails.append(("validate-differs", {"program": a, "rewritten": b, "rewrites": ["generic declarations instantiated by hand"],
                                               "parser": "Main", "value": val_canon(vals[j]), "original": va[j], "rewritten": vb[j]}))
    cov["spec_checks"]["generic aliases / interfaces (colliding parameter names, a global alias named like a parameter) vs the same type written out by hand"] = {
        "pairs": n, "both compile and were compared on values": judged}
    cov["samples"].append({"generic_program": pairs[0][0], "by_hand": pairs[0][1]})


def check(run):
    ok = run.prove("Props.C08", THEOREMS, ["Props/C08.vo"])
    common.ensure_harness()
    quick = run.tier == "quick"
    g = tsgen.TsGen(run.seed + 800)
    r = random.Random(run.seed + 801)
    n = 150 if quick else 10000
    base, variants = [], []
    for i in range(n):
        decls, parsers = g.forced_program(i) if i % 3 == 0 else g.program()
        d2, p2 = decls, parsers
        descs, moves = [], False
        if i % 12 == 0:
            # the forced family "intersection of two named objects as a union member": exchange the two names (the order of the
            # members of an intersection follows the names), in addition to the random rewrites
            names = [d[1] for d in decls if d[0] == "alias" and d[1] != "U"]
            if len(names) == 2:
                sw = {names[0]: names[1], names[1]: names[0]}
                fsw = lambda t: ("ref", sw.get(t[1], t[1]), t[2]) if t[0] == "ref" else t
                d2 = [tsgen.remap_decl((d[0], sw.get(d[1], d[1])) + tuple(d[2:]), fsw) for d in decls]
                p2 = [(nm, tsgen.map_ty(fsw, t)) for nm, t in parsers]
                descs.append("the names of two declared types exchanged"); moves = True
        if i % 24 == 6:
            # the forced family "one key, two optionalities": reverse the members of every intersection
            frev = lambda t: ("inter", list(reversed(t[1]))) if t[0] == "inter" else t
            d2 = [tsgen.remap_decl(d, frev) for d in d2]
            p2 = [(nm, tsgen.map_ty(frev, t)) for nm, t in p2]
            descs.append("intersection members reversed")
        for _ in range(r.randrange(1, 4)):
            d2, p2, desc, mv = tsgen.rewrite_program(d2, p2, r)
            descs.append(desc)
            moves = moves or mv
        base.append((decls, parsers))
        variants.append((d2, p2, descs, moves))
    projects = [[("entry.ts", tsgen.program_ts(d, p))] for d, p in base] + \
               [[("entry.ts", tsgen.program_ts(d, p))] for d, p, _, _ in variants]
    res = cstage.compile_projects(projects)
    dumps = cstage.dump_modules(res[:n])
    items, meta = [], []
    for i in range(n):
        a, b = res[i], res[n + i]
        if a.get("outcome") != "code" or b.get("outcome") != "code" or dumps[i] is None or "error" in dumps[i]:
            continue
        pv = cstage.values_for_parsers(dumps[i], run.seed + i, 10 if quick else 24)
        names = [nm for nm in pv if nm in (b.get("decoders") or [])]
        pv = {nm: pv[nm] for nm in names}
        items.append((a["code"], pv, []))
        items.append((b["code"], pv, []))
        meta.append(i)
    ev = cstage.eval_modules(items)
    known = common.load_known("C08")
    listed = {k["class"] for k in known if k.get("kind") == "known"}
    fails, in_known = [], collections.Counter()
    outcome_mismatch = []
    judged = 0
    for k, i in enumerate(meta):
        ea, eb = ev[2 * k], ev[2 * k + 1]
        d2, p2, descs, moves = variants[i]
        desc = {"program": projects[i][0][1], "rewritten": projects[n + i][0][1], "rewrites": descs}
        if "error" in ea or "error" in eb:
            fails.append(("module-does-not-load", dict(desc, original=ea.get("error"), rewritten=eb.get("error"))))
            continue
        for name in ea:
            judged += 1
            va, vb = ea[name]["validate"], eb[name]["validate"]
            if va != vb:
                vals = items[2 * k][1][name]
                j = next(x for x in range(len(va)) if va[x] != vb[x])
                fails.append(("validate-differs", dict(desc, parser=name, value=val_canon(vals[j]), original=va[j], rewritten=vb[j])))
            if ea[name]["hash256"] != eb[name]["hash256"]:
                if "hash_depends_on_names_and_alias_boundaries" in listed and moves:
                    in_known["hash_depends_on_names_and_alias_boundaries"] += 1
                elif "hash_depends_on_member_order_of_named_members" in listed and any("declared types renamed" in x or "alias introduced" in x for x in descs):
                    in_known["hash_depends_on_member_order_of_named_members"] += 1
                else:
                    fails.append(("hash256-differs", dict(desc, parser=name, original=ea[name]["hash256"], rewritten=eb[name]["hash256"])))
    for i in range(n):
        a, b = res[i], res[n + i]
        if (a.get("outcome") == "code") != (b.get("outcome") == "code"):
            fails.append(("compilation-outcome-differs", {"program": projects[i][0][1], "rewritten": projects[n + i][0][1],
                                                           "rewrites": variants[i][2], "original": a.get("outcome"), "rewritten_outcome": b.get("outcome"),
                                                           "diags": (a.get("diags") or b.get("diags"))[:2] if (a.get("diags") or b.get("diags")) else None}))
    cov = run.coverage
    cov["evaluations"] = judged
    cov["distinct_nontrivial"] = len(meta)
    cov["rule"] = ("random programs (1-5 declarations: aliases, interfaces, discriminated and literal unions, intersections, utility "
                   "types, recursion) and 1-3 random meaning-preserving rewrites each (member/property/declaration order, parentheses, "
                   "Readonly, interface<->alias, alias introduction, renaming, nested unions); both compiled and compared on validate() "
                   "over type-directed values and on hash256(); non-trivial = both versions compile")
    cov["correspondence"]["(metamorphic: the implementation against itself; the runtime model is tied by the C03/C11 streams)"] = {
        "cases": len(meta), "disagreements": 0,
        "distribution": {"outcomes": dict(collections.Counter(x.get("outcome") for x in res)),
                         "rewrites": dict(collections.Counter(d for v in variants for d in v[2]))}}
    cov["spec_checks"]["validate and hash256 equal before/after rewriting"] = {
        "parsers_judged": judged, "failures": dict(collections.Counter(k for k, _ in fails)), "failures inside listed classes": dict(in_known)}
    cov["samples"] = [{"program": projects[0][0][1], "rewritten": projects[n][0][1], "rewrites": variants[0][2]}]
    generic_stream(run, 60 if quick else 2500, fails, cov)
    cov["trusted_base"] = [
        "Coq 8.16.1 kernel; no axioms (dispatch and hash-order theorems are about the runtime trees)",
        "the compiler frontend and printer are not modelled: their output is observed through H-compile + Node (modrun.mjs)",
        "rewrites are implemented on the generator's AST (tools/lib/tsgen.py) and printed to TypeScript"]
    for kf in known:
        if kf.get("kind") == "known":
            w = eval(kf["witness"], {"__builtins__": {}}, {"None": None, "True": True, "False": False})
            rr = cstage.compile_projects([[("entry.ts", w["a"])], [("entry.ts", w["b"])]])
            if all(x.get("outcome") == "code" for x in rr):
                e = cstage.eval_modules([(rr[0]["code"], {w["parser"]: []}, []), (rr[1]["code"], {w["parser"]: []}, [])])
                if "error" not in e[0] and "error" not in e[1] and e[0][w["parser"]]["hash256"] != e[1][w["parser"]]["hash256"]:
                    run.known("class=%s %s" % (kf["class"], kf["what"]))
                    cov["known_findings_reproduced"].append(kf["class"])
        elif kf.get("kind") == "fixed":
            # a repaired defect: both sides must compile and describe the same type; the failure coming back is a violation
            w = eval(kf["witness"], {"__builtins__": {}}, {"None": None, "True": True, "False": False})
            rr = cstage.compile_projects([[("entry.ts", w["a"])], [("entry.ts", w["b"])]])
            back = [x.get("outcome") for x in rr] != ["code", "code"]
            if not back:
                e = cstage.eval_modules([(rr[0]["code"], {w["parser"]: []}, []), (rr[1]["code"], {w["parser"]: []}, [])])
                back = "error" in e[0] or "error" in e[1] or e[0][w["parser"]]["hash256"] != e[1][w["parser"]]["hash256"]
            cov.setdefault("fixed_witnesses_replayed", []).append(kf["class"])
            if back:
                fails.append(("fixed-finding-returned-" + kf["class"], {"witness": w, "outcomes": [x.get("outcome") for x in rr],
                                                                        "fixed_by": kf.get("commit")}))
    if not ok:
        run.violation("proof", {"what": run.proof_broken, "theorems": THEOREMS}, no_input=not fails)
    for i, (kind, payload) in enumerate(fails[:5]):
        run.violation("spec-%d-%s" % (i, kind), dict(payload, clause=kind))


def replay(d):
    print(d)
    return 0
