"""C08 — meaning-preserving rewrites of the source do not change validators."""
import collections
import random
from lib import common, cstage, tsgen
from lib.vals import *

THEOREMS = ["C08_literal_set_dispatch_invisible", "C08_discriminator_dispatch_invisible",
            "C08_property_order_invisible_to_hash256", "C08_comments_invisible_to_hash256",
            "C08_property_order_invisible_to_hash", "C08_nonvacuous"]


def check(run):
    ok = run.prove("Props.C08", THEOREMS, ["Props/C08.vo"])
    common.ensure_harness()
    quick = run.tier == "quick"
    g = tsgen.TsGen(run.seed + 800)
    r = random.Random(run.seed + 801)
    n = 150 if quick else 10000
    base, variants = [], []
    for i in range(n):
        decls, parsers = g.forced_program(i) if i % 3 == 0 else g.program()
        d2, p2 = decls, parsers
        descs, moves = [], False
        for _ in range(r.randrange(1, 4)):
            d2, p2, desc, mv = tsgen.rewrite_program(d2, p2, r)
            descs.append(desc)
            moves = moves or mv
        base.append((decls, parsers))
        variants.append((d2, p2, descs, moves))
    projects = [[("entry.ts", tsgen.program_ts(d, p))] for d, p in base] + \
               [[("entry.ts", tsgen.program_ts(d, p))] for d, p, _, _ in variants]
    res = cstage.compile_projects(projects)
    dumps = cstage.dump_modules(res[:n])
    items, meta = [], []
    for i in range(n):
        a, b = res[i], res[n + i]
        if a.get("outcome") != "code" or b.get("outcome") != "code" or dumps[i] is None or "error" in dumps[i]:
            continue
        pv = cstage.values_for_parsers(dumps[i], run.seed + i, 10 if quick else 24)
        names = [nm for nm in pv if nm in (b.get("decoders") or [])]
        pv = {nm: pv[nm] for nm in names}
        items.append((a["code"], pv, []))
        items.append((b["code"], pv, []))
        meta.append(i)
    ev = cstage.eval_modules(items)
    known = common.load_known("C08")
    listed = {k["class"] for k in known if k.get("kind") == "known"}
    fails, in_known = [], collections.Counter()
    outcome_mismatch = []
    judged = 0
    for k, i in enumerate(meta):
        ea, eb = ev[2 * k], ev[2 * k + 1]
        d2, p2, descs, moves = variants[i]
        desc = {"program": projects[i][0][1], "rewritten": projects[n + i][0][1], "rewrites": descs}
        if "error" in ea or "error" in eb:
            fails.append(("module-does-not-load", dict(desc, original=ea.get("error"), rewritten=eb.get("error"))))
            continue
        for name in ea:
            judged += 1
            va, vb = ea[name]["validate"], eb[name]["validate"]
            if va != vb:
                vals = items[2 * k][1][name]
                j = next(x for x in range(len(va)) if va[x] != vb[x])
                fails.append(("validate-differs", dict(desc, parser=name, value=val_canon(vals[j]), original=va[j], rewritten=vb[j])))
            if ea[name]["hash256"] != eb[name]["hash256"]:
                if "hash_depends_on_names_and_alias_boundaries" in listed and moves:
                    in_known["hash_depends_on_names_and_alias_boundaries"] += 1
                elif "hash_depends_on_member_order_of_named_members" in listed and any("declared types renamed" in x or "alias introduced" in x for x in descs):
                    in_known["hash_depends_on_member_order_of_named_members"] += 1
                else:
                    fails.append(("hash256-differs", dict(desc, parser=name, original=ea[name]["hash256"], rewritten=eb[name]["hash256"])))
    for i in range(n):
        a, b = res[i], res[n + i]
        if (a.get("outcome") == "code") != (b.get("outcome") == "code"):
            fails.append(("compilation-outcome-differs", {"program": projects[i][0][1], "rewritten": projects[n + i][0][1],
                                                           "rewrites": variants[i][2], "original": a.get("outcome"), "rewritten_outcome": b.get("outcome"),
                                                           "diags": (a.get("diags") or b.get("diags"))[:2] if (a.get("diags") or b.get("diags")) else None}))
    cov = run.coverage
    cov["evaluations"] = judged
    cov["distinct_nontrivial"] = len(meta)
    cov["rule"] = ("random programs (1-5 declarations: aliases, interfaces, discriminated and literal unions, intersections, utility "
                   "types, recursion) and 1-3 random meaning-preserving rewrites each (member/property/declaration order, parentheses, "
                   "Readonly, interface<->alias, alias introduction, renaming, nested unions); both compiled and compared on validate() "
                   "over type-directed values and on hash256(); non-trivial = both versions compile")
    cov["correspondence"]["(metamorphic: the implementation against itself; the runtime model is tied by the C03/C11 streams)"] = {
        "cases": len(meta), "disagreements": 0,
        "distribution": {"outcomes": dict(collections.Counter(x.get("outcome") for x in res)),
                         "rewrites": dict(collections.Counter(d for v in variants for d in v[2]))}}
    cov["spec_checks"]["validate and hash256 equal before/after rewriting"] = {
        "parsers_judged": judged, "failures": dict(collections.Counter(k for k, _ in fails)), "failures inside listed classes": dict(in_known)}
    cov["samples"] = [{"program": projects[0][0][1], "rewritten": projects[n][0][1], "rewrites": variants[0][2]}]
    cov["trusted_base"] = [
        "Coq 8.16.1 kernel; no axioms (dispatch and hash-order theorems are about the runtime trees)",
        "the compiler frontend and printer are not modelled: their output is observed through H-compile + Node (modrun.mjs)",
        "rewrites are implemented on the generator's AST (tools/lib/tsgen.py) and printed to TypeScript"]
    for kf in known:
        if kf.get("kind") == "known":
            w = eval(kf["witness"], {"__builtins__": {}}, {"None": None, "True": True, "False": False})
            rr = cstage.compile_projects([[("entry.ts", w["a"])], [("entry.ts", w["b"])]])
            if all(x.get("outcome") == "code" for x in rr):
                e = cstage.eval_modules([(rr[0]["code"], {w["parser"]: []}, []), (rr[1]["code"], {w["parser"]: []}, [])])
                if "error" not in e[0] and "error" not in e[1] and e[0][w["parser"]]["hash256"] != e[1][w["parser"]]["hash256"]:
                    run.known("class=%s %s" % (kf["class"], kf["what"]))
                    cov["known_findings_reproduced"].append(kf["class"])
    if not ok:
        run.violation("proof", {"what": run.proof_broken, "theorems": THEOREMS}, no_input=not fails)
    for i, (kind, payload) in enumerate(fails[:5]):
        run.violation("spec-%d-%s" % (i, kind), dict(payload, clause=kind))


def replay(d):
    print(d)
    return 0
