"""C02 — emitted JSON Schema and validator agree on JSON documents."""
import collections
import json
import os
from lib import common, rstage, gen
from lib.vals import *
from checks.c03 import tree_tags

THEOREMS = ["C02_flat_unsupported_throws", "C02_flat_schema_sound_on_fragment", "C02_fragment_nonvacuous", "C02_flat_schema_complete_on_fragment", "C02_complete_fragment_nonvacuous", "C02_refuted_tuple_without_minItems", "C02_refuted_never_is_malformed", "C02_nonvacuous"]
IMPORTS = "From Beff Require Import Model.Cases Model.JsonSchema Model.StrictSpec."


def to_py(v):
    """JSON-representable values only (None marker = not JSON)"""
    t = v[0]
    if t == "n": return (True, None)
    if t == "b": return (True, v[1])
    if t == "num":
        if v[1] == "int": return (True, v[2])
        if v[1] == "dec": return (True, float(v[2]))
        return (False, None)
    if t == "s": return (True, v[1])
    if t == "arr":
        out = []
        for x in v[1]:
            ok, y = to_py(x)
            if not ok: return (False, None)
            out.append(y)
        return (True, out)
    if t == "obj":
        out = {}
        for k, x in v[1]:
            ok, y = to_py(x)
            if not ok or k == "__proto__": return (False, None)
            out[k] = y
        return (True, out)
    return (False, None)


def has_null(v):
    t = v[0]
    if t == "n": return True
    if t == "arr": return any(has_null(x) for x in v[1])
    if t == "obj": return any(has_null(x) for _, x in v[1])
    return False


def json_consts_only(c):
    for r in [c["rt"]] + [b for _, b in c["env"]]:
        for n in rt_nodes(r):
            if n[0] == "Const" and isinstance(n[1], tuple) and n[1][1] not in ("int", "dec"): return False
            if n[0] == "AnyOfConsts" and any(isinstance(x, tuple) and x[1] not in ("int", "dec") for x in n[1]): return False
            if n[0] == "Object" and any(k == "__proto__" for k, _ in n[1]): return False
    return True


class NotModelled(Exception):
    pass


def json_coq(j):
    """a JSON value as parsed by Python -> a term of Model/Schema.v json"""
    if j is None: return "JNull"
    if j is True: return "(JBool true)"
    if j is False: return "(JBool false)"
    if isinstance(j, int): return "(JNum (NInt (%d)))" % j
    if isinstance(j, float):
        if j != j or j in (float("inf"), float("-inf")) or "e" in repr(j): raise NotModelled("number")
        return "(JNum (NInt (%d)))" % int(j) if j.is_integer() else "(JNum (NDec %s))" % coq_str(repr(j))
    if isinstance(j, str): return "(JStr %s)" % coq_str(j)
    if isinstance(j, list): return "(JArr [" + "; ".join(json_coq(x) for x in j) + "])"
    if isinstance(j, dict):
        if "pattern" in j: raise NotModelled("pattern")       # js_valid does not read patterns
        return "(JObj [" + "; ".join("(%s, %s)" % (coq_str(k), json_coq(v)) for k, v in j.items()) + "])"
    raise NotModelled(type(j).__name__)


def js_valid_expr(schema, defs, vals):
    """one expression: the verdicts of Model/JsonSchema.v js_valid on all documents, as a string of t/f (n = not a JSON document)"""
    resolve = "(fun _ => None)" if defs is None else \
        "(resolve_in default_conf [" + "; ".join("(%s, %s)" % (coq_str(k), json_coq(v)) for k, v in defs.items()) + "])"
    return ('concat_str "" (map (fun v => match val_to_json 60 v with Some d => show_bool (js_valid %s 60 %s d) | None => "n" end) %s)'
            % (resolve, json_coq(schema), coq_list(val_coq(v) for v in vals)))


def run_oracle(jobs):
    if not jobs:
        return []
    inp = "\n".join(json.dumps(j) for j in jobs) + "\n"
    rc, out, _ = common.sh(["python3-vt", os.path.join(common.VERIF, "tools/oracle_schema.py")], input=inp, timeout=900)
    res = {}
    for line in out.splitlines():
        if line.startswith("{"):
            r = json.loads(line)
            res[r["id"]] = r
    if len(res) != len(jobs):
        raise RuntimeError("schema oracle failed: rc=%s\n%s" % (rc, out[-2000:]))
    return [res[j["id"]] for j in jobs]


KNOWN_CLASSES = {
    "tuple_without_minItems": lambda kind, tags: "Tuple" in tags and kind == "valid-against-schema-but-rejected",
    "custom_format_is_annotation": lambda kind, tags: ("StringFmt" in tags or "NumberFmt" in tags) and kind == "valid-against-schema-but-rejected",
    "regex_pattern_is_description": lambda kind, tags: "Regex" in tags and kind in ("member-but-invalid-against-schema", "valid-against-schema-but-rejected", "oracle-error"),
    "never_is_empty_anyOf": lambda kind, tags: "Never" in tags and kind == "schema-not-wellformed",
    "index_signature_allOf": lambda kind, tags: "Index" in tags and kind == "member-but-invalid-against-schema",
    "empty_allOf_closed_object": lambda kind, tags: "EmptyAllOf" in tags and kind == "member-but-invalid-against-schema",
    "contextual_allOf_of_named_closed_objects": lambda kind, tags: "AllOfWithRef" in tags and "mode:contextual" in tags
                                                                   and kind == "member-but-invalid-against-schema",
    "allOf_with_unmergeable_member_keeps_closed_objects": lambda kind, tags: "AllOfUnmergeable" in tags
                                                                             and kind == "member-but-invalid-against-schema",
    "empty_prefixItems": lambda kind, tags: "Tuple" in tags and kind == "schema-not-wellformed",
    "allOf_non_object_member": lambda kind, tags: "AllOf" in tags and kind == "valid-against-schema-but-rejected",
    "required_property_accepting_undefined": lambda kind, tags: "RequiredAcceptsUndefined" in tags and kind == "member-but-invalid-against-schema",
    "optional_nullish_property_is_required": lambda kind, tags: "OptionalNullish" in tags and kind == "member-but-invalid-against-schema",
    "synthetic_variant_names_collide": lambda kind, tags: "DiscKeysCollide" in tags and kind in ("member-but-invalid-against-schema", "valid-against-schema-but-rejected"),
    "shared_variant_listed_once_per_key": lambda kind, tags: "DiscSharedVariant" in tags and kind == "member-but-invalid-against-schema",
    "prototype_named_property": lambda kind, tags: "ProtoKey" in tags and kind in ("valid-against-schema-but-rejected", "member-but-invalid-against-schema"),
}


def check(run):
    ok = run.prove("Props.C02", THEOREMS, ["Props/C02.vo", "Model/JsonSchema.vo"])
    common.ensure_harness()
    quick = run.tier == "quick"
    cases = rstage.load_corpus("C02")
    cases += rstage.gen_cases(run.seed + 201, 220 if quick else 3000, 10 if quick else 20, depth=3, strict=True, schemaable=0.97)
    cases += rstage.gen_forced(run.seed + 202, 100 if quick else 2000, 10, strict=True)
    cases = [c for c in cases if json_consts_only(c)]
    # ---- implementation: flat schema, contextual schema + export, validate (default/strict) on JSON documents
    jobs, exprs = [], []
    for ci, c in enumerate(cases):
        # required-ness is decided key by key: every object document also appears with each single key removed
        seen_docs = {val_canon(v) for v in c["vals"]}
        for v in list(c["vals"])[:4]:
            if v[0] == "obj":
                for i in range(min(len(v[1]), 4)):
                    w = OBJ(v[1][:i] + v[1][i + 1:])
                    if val_canon(w) not in seen_docs:
                        seen_docs.add(val_canon(w)); c["vals"].append(w)
        docs = []
        for v in c["vals"]:
            okj, py = to_py(v)
            if okj:
                docs.append((v, py))
        c["docs"] = docs
        ops = [{"op": "schemaRaw"}, {"op": "ctxseq", "calls": [0], "fresh": True}, {"op": "schema"}]
        for v, _ in docs:
            ops.append({"op": "validate", "v": val_canon(v), "strict": False})
            ops.append({"op": "validate", "v": val_canon(v), "strict": True})
        jobs.append({"id": ci, "env": env_json(c["env"]), "rt": rt_json(c["rt"]), "ops": ops})
        exprs.append("run_schema_flat %s %s" % (env_coq(c["env"]), rt_coq(c["rt"])))
        exprs.append("run_ctxseq %s default_conf %s [0]" % (env_coq(c["env"]), coq_list([rt_coq(c["rt"])])))
        for v, _ in docs:
            exprs.append("show_res show_bool (no_extra F0 %s FUEL [] %s %s)" % (env_coq(c["env"]), rt_coq(c["rt"]), val_coq(v)))
    js = common.run_driver(jobs)
    cq = common.run_coq_cases(IMPORTS, exprs, tag="C02")
    # ---- oracle jobs
    ojobs, ometa = [], []
    pos = 0
    disagree = []
    for ci, (c, out) in enumerate(zip(cases, js)):
        flat = json.loads(out[0])
        ctx = json.loads(out[1])
        m_flat, m_ctx = cq[pos], cq[pos + 1]
        c["no_extra"] = cq[pos + 2: pos + 2 + len(c["docs"])]
        pos += 2 + len(c["docs"])
        c["validate"] = [(out[3 + 2 * k], out[4 + 2 * k]) for k in range(len(c["docs"]))]
        desc = rstage.case_text(c)
        if out[2] != m_flat:
            disagree.append(dict(desc, mode="flat", impl=out[2][:500], model=m_flat[:500]))
        line = ctx["line"]
        if "<after-throw>" in m_ctx:
            if line.split(" ==> ")[0] != m_ctx.split(" ==> ")[0].replace(" ;; <after-throw>", ""):
                disagree.append(dict(desc, mode="contextual", impl=line[:500], model=m_ctx[:500]))
        elif line != m_ctx:
            disagree.append(dict(desc, mode="contextual", impl=line[:500], model=m_ctx[:500]))
        docs_py = [py for _, py in c["docs"]]
        if "schema" in flat:
            ojobs.append({"id": len(ojobs), "schema": flat["schema"], "docs": docs_py})
            ometa.append((ci, "flat"))
        c["flat_error"] = flat.get("error")
        raw = ctx["raw"]
        if not (isinstance(raw["outs"][0], dict) and "__error" in raw["outs"][0]):
            ojobs.append({"id": len(ojobs), "schema": raw["outs"][0], "defs": raw["defs"], "docs": docs_py})
            ometa.append((ci, "contextual"))
    ores = run_oracle(ojobs)
    # ---- the reading of JSON Schema used by the theorems (js_valid) against python jsonschema, on the emitted schemas
    jexprs, jmeta, not_modelled = [], [], 0
    for k, ((ci, mode), job) in enumerate(zip(ometa, ojobs)):
        vals = [v for v, _ in cases[ci]["docs"]]
        if not vals: continue
        try:
            jexprs.append(js_valid_expr(job["schema"], job.get("defs"), vals))
            jmeta.append(k)
        except NotModelled:
            not_modelled += 1
    jdisagree, jdocs = [], 0
    for k, out in zip(jmeta, common.run_coq_cases(IMPORTS, jexprs, tag="C02js", shard=40)):
        ci, mode = ometa[k]
        for (v, py), sv, mv in zip(cases[ci]["docs"], ores[k]["valid"], out):
            if isinstance(sv, str): continue
            jdocs += 1
            if mv != ("t" if sv else "f"):
                jdisagree.append({"schema": ojobs[k]["schema"], "defs": ojobs[k].get("defs"), "doc": val_canon(v), "jsonschema": sv, "js_valid": mv})
    # ---- the property on the implementation
    fails = []
    judged = collections.Counter()
    recursive = {}
    for (ci, mode), orr in zip(ometa, ores):
        c = cases[ci]
        tags = set(tree_tags(c)) | {"mode:" + mode}
        for n in [x for r in [c["rt"]] + [b for _, b in c["env"]] for x in rt_nodes(r)]:
            if n[0] == "AllOf" and len(n[1]) == 0: tags.add("EmptyAllOf")
            if n[0] == "AllOf" and len(n[1]) >= 2 and any(m[0] == "Ref" or (m[0] == "Meta" and m[-1][0] == "Ref") for m in n[1]): tags.add("AllOfWithRef")
            if n[0] == "AllOf" and len(n[1]) >= 2:
                envd = dict(c["env"])
                def plain_object(m, depth=0):
                    while m[0] in ("Meta", "Ref") and depth < 20:
                        m = m[-1] if m[0] == "Meta" else envd.get(m[1], ("Any",)); depth += 1
                    return m[0] == "Object" and not m[2]
                if not all(plain_object(m) for m in n[1]): tags.add("AllOfUnmergeable")
        desc = dict(rstage.case_text(c), mode=mode)
        if mode == "flat" and any(n[0] == "Ref" for r in [c["rt"]] + [b for _, b in c["env"]] for n in rt_nodes(r)):
            from checks.c13 import recursive_reachable
            if recursive_reachable(c["env"], c["rt"]):
                continue          # the flat schema of a recursive type prints {} at the cut: outside the claim
        if orr["wellformed"] is not True:
            fails.append(("schema-not-wellformed", tags, dict(desc, problem=orr["wellformed"])))
        for (v, py), (vl, vs), ne, sv in zip(c["docs"], c["validate"], c["no_extra"], orr["valid"]):
            if isinstance(sv, str):
                fails.append(("oracle-error", tags, dict(desc, doc=val_canon(v), problem=sv)))
                continue
            judged[mode] += 1
            exact_member = (vl == "t" and ne == "t")
            if sv and not exact_member:
                fails.append(("valid-against-schema-but-rejected", tags,
                              dict(desc, doc=val_canon(v), validate_default=vl, no_extra=ne, validate_strict=vs)))
            if exact_member and not has_null(v) and not sv:
                fails.append(("member-but-invalid-against-schema", tags, dict(desc, doc=val_canon(v), validate_default=vl, no_extra=ne)))
    # inexpressible types must throw
    for ci, c in enumerate(cases):
        tags = tree_tags(c)
        direct = {n[0] for n in rt_nodes(c["rt"])} & {"Date", "BigInt", "TypedArray", "Map", "Set"}
        if direct and c["flat_error"] != "!SchemaUnsupported":
            fails.append(("inexpressible-type-did-not-throw", tags, dict(rstage.case_text(c), flat=c["flat_error"])))
    known = common.load_known("C02")
    listed = {k["class"] for k in known if k.get("kind") == "known"}
    model_ok = {json.dumps(d["rt"]) for d in disagree}
    new_fail, in_known = [], collections.Counter()
    for kind, tags, payload in fails:
        cls = [n for n, pred in KNOWN_CLASSES.items() if n in listed and pred(kind, tags)]
        if cls and json.dumps(payload["rt"]) not in model_ok:
            in_known[cls[0]] += 1
        else:
            new_fail.append((kind, payload))
    cov = run.coverage
    cov["evaluations"] = sum(judged.values())
    cov["distinct_nontrivial"] = sum(1 for c in cases if c["docs"] and any(v[0] in ("obj", "arr") for v, _ in c["docs"]))
    cov["rule"] = ("random + forced validator trees (JSON-expressible leaves in 97% of cases) x type-directed JSON documents "
                   "(members, near misses, with and without nulls, extra keys); each judged against the flat schema and the contextual "
                   "schema + exported definitions by python jsonschema (Draft 2020-12) and by the validator; non-trivial = structured docs")
    cov["correspondence"]["schema() and schemaWithContext()+exportDefinitions() impl vs model"] = {
        "cases": 2 * len(cases), "disagreements": len(disagree), "distribution": {"constructors": rstage.histogram(cases)}}
    cov["correspondence"]["Model/JsonSchema.v js_valid vs python jsonschema (Draft 2020-12) on the emitted schemas"] = {
        "cases": jdocs, "disagreements": len(jdisagree),
        "distribution": {"schemas": len(jexprs), "schemas skipped (pattern / exponent numbers, not read by js_valid)": not_modelled}}
    cov["spec_checks"]["C02 clauses on the implementation (oracle: python jsonschema)"] = {
        "documents_judged": dict(judged), "failures": dict(collections.Counter(k for k, _, _ in fails)),
        "failures inside listed classes": dict(in_known)}
    cov["spec_checks"]["unlisted failures (first 8)"] = [dict(p, clause=k) for k, p in new_fail[:8]]
    cov["samples"] = [dict(rstage.case_text(cases[0]), flat_schema=js[0][2][:300])]
    cov["trusted_base"] = [
        "Coq 8.16.1 kernel, vm_compute; no axioms",
        "Model/Schema.v tied to codegen-v2.ts / openapi-pp.ts by comparing every emitted schema (up to key order)",
        "python jsonschema 4.x Draft202012Validator is the reading of JSON Schema for the search; Model/JsonSchema.v (js_valid) is the "
        "reading used in the Coq statements; 'exact member' = validator accepts && Model/StrictSpec.v no_extra",
        "documents are finite JSON trees; constants restricted to JSON-representable numbers"]
    for k in known:
        w = eval(k["witness"], {"__builtins__": {}}, {"None": None, "True": True, "False": False})
        okj, py = to_py(w["value"])
        out = common.run_driver([{"id": 0, "env": env_json(w["env"]), "rt": rt_json(w["rt"]),
                                  "ops": [{"op": "schemaRaw"}, {"op": "validate", "v": val_canon(w["value"]), "strict": not w.get("declared_keys_only", False)},
                                          {"op": "ctxseq", "calls": [0], "fresh": True}]}])[0]
        flat = json.loads(out[0])
        failing = False
        if w.get("mode") == "contextual":
            raw = json.loads(out[2])["raw"]
            if not (isinstance(raw["outs"][0], dict) and "__error" in raw["outs"][0]):
                orr = run_oracle([{"id": 0, "schema": raw["outs"][0], "defs": raw["defs"], "docs": [py]}])[0]
                sv = orr["valid"][0]
                failing = (orr["wellformed"] is not True) or isinstance(sv, str) or (sv != (out[1] == "t"))
        elif "schema" in flat:
            orr = run_oracle([{"id": 0, "schema": flat["schema"], "docs": [py]}])[0]
            sv = orr["valid"][0]
            failing = (orr["wellformed"] is not True) or isinstance(sv, str) or (sv != (out[1] == "t"))
        if k.get("kind") == "known" and failing:
            run.known("class=%s %s" % (k["class"], k["what"]))
            cov["known_findings_reproduced"].append(k["class"])
        if k.get("kind") == "fixed" and failing:
            run.violation("fixed-finding-returned-" + k["class"], {"witness": k["witness"]})
    if not ok:
        run.violation("proof", {"what": run.proof_broken, "theorems": THEOREMS}, no_input=not new_fail)
    for i, (kind, payload) in enumerate(new_fail[:5]):
        run.violation("spec-%d-%s" % (i, kind), dict(payload, clause=kind))
    if jdisagree and not new_fail:
        run.violation("correspondence-js_valid", {
            "what": "correspondence stream 'js_valid vs python jsonschema' no longer checks (%d documents): the reading of JSON Schema in the "
                    "Coq statements differs from the reference implementation" % len(jdisagree), "first": jdisagree[0]}, no_input=True)
    if disagree and not new_fail:
        run.violation("correspondence", {
            "what": "correspondence stream 'schema impl vs model' no longer checks (%d cases); no document on which schema and validator "
                    "disagree outside the listed classes was found" % len(disagree), "first": disagree[0]}, no_input=True)


def replay(d):
    print(d)
    return 0
