"""C04 — compilation is total: code or located diagnostics, never a panic or a hang."""
import collections
import random
import re
from lib import common, cstage, tsgen

THEOREMS = ["C04_union_flattening_terminates_when_acyclic", "C04_refuted_union_cycle_diverges", "C04_nonvacuous"]

UNSUPPORTED = [
    "export type A = (x: number) => string;", "export type A = new () => Date;", "export type A = symbol;",
    "export type A = { get x(): number };", "export type A = T extends infer U ? U : never;",
    "export type A<T> = T extends string ? 1 : 2;\nexport type B = A<number>;", "export type A = typeof globalThis;",
    "export type A = { [K in keyof B as `x${K}`]: number };\nexport type B = { a: 1 };", "export type A = this;",
    "export type A = unique symbol;", "export type A = abstract new () => void;", "class C { a = 1 }\nexport type A = C;",
    "export type A = object;", "export type A = Function;", "export type A = Promise<string>;", "export type A = [a: string, b?: number];",
    "export type A = ReturnType<typeof f>;\nfunction f() { return 1; }", "export type A = Uppercase<'a'>;",
    "export type A = readonly string[];", "export type A = string[][];", "export type A = { a: number }['a'];",
    "export type A = keyof { a: 1, b: 2 };", "export type A = Exclude<'a' | 'b', 'a'>;",
    "enum E { A = 'a', B = 'b' }\nexport type A = E;", "enum E { A, B }\nexport type A = E.A;",
    "export type A = Record<string, never>;", "export type A = Partial<string>;", "export type A = Pick<{a: 1}, 'zz'>;",
    "export type A = Omit<string, 'a'>;", "export type A = Array;", "export type A = Map<string>;", "export type A = Set;",
    "export type A = StringFormat<'unregistered'>;", "export type A = NumberFormat<'nonneg'>;",
    "const v = { a: 1, b: 'x', c: [1, 2], d: null, e: undefined, f: true } as const;\nexport type A = typeof v;",
    "const v = [1, 'a'] as const;\nexport type A = typeof v[number];", "declare const d: { a: string };\nexport type A = typeof d;",
    "export type A = import('./nope').T;", "namespace NS { export type T = string }\nexport type A = NS.T;",
]


def tokens(text):
    return re.findall(r"\s+|[A-Za-z_$][\w$]*|\d+|\"[^\"]*\"|`[^`]*`|.", text)


def mutate_text(text, r):
    toks = tokens(text)
    idx = [i for i, t in enumerate(toks) if not t.isspace()]
    if not idx:
        return text
    k = r.choice(["delete", "duplicate", "swap", "replace"])
    i = r.choice(idx)
    if k == "delete":
        del toks[i]
    elif k == "duplicate":
        toks.insert(i, toks[i])
    elif k == "swap":
        j = r.choice(idx)
        toks[i], toks[j] = toks[j], toks[i]
    else:
        toks[i] = r.choice(["{", "}", "|", "&", "<", ">", "(", ")", "[", "]", ";", ":", "?", "=", "extends", "keyof", "typeof", "T0", "never", '"x"'])
    return "".join(toks)


def depth0(body):
    out, depth = [], 0
    for ch in body:
        if ch in "{[<(":
            depth += 1
        elif ch in "}]>)":
            depth = max(0, depth - 1)
        elif depth == 0:
            out.append(ch)
    return "".join(out)


def has_unguarded_cycle(text):
    """a type alias that refers to itself (possibly through other aliases) outside any object/array/tuple/generic brackets"""
    decls = {}
    for m in re.finditer(r"type\s+(\w+)\s*(?:<[^=]*>)?\s*=", text):
        # the body runs to the first `;` outside all brackets
        depth, j = 0, m.end()
        while j < len(text) and not (text[j] == ";" and depth == 0):
            if text[j] in "{[<(": depth += 1
            elif text[j] in "}]>)": depth = max(0, depth - 1)
            j += 1
        decls[m.group(1)] = text[m.end():j]
    graph = {n: {m for m in decls if re.search(r"\b%s\b" % re.escape(m), depth0(b))} for n, b in decls.items()}
    # parenthesised unions count as depth 0 for this purpose: strip parentheses first
    graph2 = {}
    for n, b in decls.items():
        # parentheses and Readonly<...> (which the compiler treats as the identity) are transparent
        b2 = depth0(re.sub(r"\bReadonly\s*<", " ", b).replace("(", " ").replace(")", " "))
        graph2[n] = {m for m in decls if re.search(r"\b%s\b" % re.escape(m), b2)}
    def cyc(n, path):
        if n in path: return True
        return any(cyc(m, path | {n}) for m in graph2.get(n, ()))
    return any(cyc(n, set()) for n in graph2)


def classify(files, rr):
    """the recorded call sites of C04 (known-findings.jsonl): name of the class this failure belongs to, or None"""
    text = "\n".join(t for _, t in files)
    panic = " ".join(rr.get("panic") or [])
    if "should not create decoders for semantic types" in panic: return "semantic_type_reaches_printer"
    if "Default export already set" in panic: return "two_default_exports_panic"
    if "type with args name conflict" in panic: return "generic_instance_names_collide"
    if rr.get("outcome") == "abort" and "overflowed its stack" in rr.get("stderr", ""):
        if re.search(r"export\s*\*\s*from", text): return "export_star_cycle_stack_overflow"
        if has_unguarded_cycle(text): return "alias_cycle_without_constructor_stack_overflow"
        if re.search(r"type\s+(\w+)\s*<[^>]+>\s*=[^;]*\b\1\s*<", text): return "polymorphic_recursion_stack_overflow"
        if re.search(r"import\(\s*[\"']\./(\w+)[\"']\s*\)\s*[;}\]|&,)]", text): return "self_import_type_stack_overflow"
        m = re.search(r"const\s+(\w+)\s*=\s*([^;]*);", text)
        if m and re.search(r"\b%s\b" % re.escape(m.group(1)), m.group(2)) and re.search(r"typeof\s+%s\b" % re.escape(m.group(1)), text):
            return "typeof_self_referential_const_stack_overflow"
    return None


def in_file(d, files):
    names = dict(files)
    if d["file"] not in names:
        return "diagnostic names %r, which is not a file of the project" % d["file"]
    if d.get("lo") is None:
        return None          # UnknownLocation: names a file only
    text = names[d["file"]]
    lines = text.split("\n")
    n = len(text.encode("utf-8"))
    if not (0 <= d["offset_lo"] <= d["offset_hi"] <= n + 1):
        return "byte range %s..%s outside the file (%d bytes)" % (d["offset_lo"], d["offset_hi"], n)
    for end in ("lo", "hi"):
        ln, col = d[end]["line"], d[end]["col"]
        if not (1 <= ln <= len(lines)):
            return "%s line %d outside the file (%d lines)" % (end, ln, len(lines))
        if col > len(lines[ln - 1]) + 1:
            return "%s column %d outside line %d (%d characters)" % (end, col, ln, len(lines[ln - 1]))
    return None


def check(run):
    ok = run.prove("Props.C04", THEOREMS, ["Props/C04.vo"])
    common.ensure_harness()
    quick = run.tier == "quick"
    r = random.Random(run.seed + 400)
    g = tsgen.TsGen(run.seed + 401)
    projects, tags = [], []
    valid = []
    for i in range(120 if quick else 12000):
        decls, parsers = g.forced_program(i) if i % 5 == 0 else g.program()
        text = tsgen.program_ts(decls, parsers)
        valid.append(text)
        if i % 3 == 0:
            files, _ = tsgen.split_program(decls, parsers, r)
        else:
            files = [("entry.ts", text)]
        projects.append(files); tags.append("valid")
    for u in UNSUPPORTED:
        projects.append([("entry.ts", u + "\nparse.buildParsers<{ A: A }>();")]); tags.append("unsupported-syntax")
    for i in range(200 if quick else 24000):
        projects.append([("entry.ts", mutate_text(r.choice(valid), r))]); tags.append("mutated-text")
    for i in range(30 if quick else 1200):
        k = r.choice(["missing", "cycle", "selfimport", "nofile"])
        if k == "missing":
            files = [("entry.ts", 'import { X } from "./m0";\nparse.buildParsers<{ X: X }>();'), ("m0.ts", "export type Y = string;")]
        elif k == "cycle":
            files = [("entry.ts", 'import { A } from "./m0";\nparse.buildParsers<{ A: A }>();'),
                     ("m0.ts", 'import { B } from "./m1";\nexport type A = { b: B | null };'),
                     ("m1.ts", 'import { A } from "./m0";\nexport type B = { a: A | null };')]
        elif k == "selfimport":
            files = [("entry.ts", 'import { A } from "./entry";\nexport type A = { a: string };\nparse.buildParsers<{ A: A }>();')]
        else:
            files = [("entry.ts", 'import { X } from "./gone";\nparse.buildParsers<{ X: X }>();')]
        projects.append(files); tags.append("imports")
    # enums declared in one module and used member-wise from another (initialisers: literals, constants, expressions)
    for i in range(30 if quick else 1200):
        pad = "// " + "x" * r.randrange(40, 400) + "\n" * r.randrange(1, 6)
        inits = r.sample(['"created"', "PREFIX", "1 + 2", "7", '`${PREFIX}_x`', "other.length"], r.randrange(2, 4))
        # a member may be declared with a string-literal name
        quoted = r.randrange(len(inits)) if r.random() < 0.4 else -1
        members = ", ".join(('"m-%d" = %s' % (j, e)) if j == quoted and j != 0 else ("M%d = %s" % (j, e)) for j, e in enumerate(inits))
        lib = pad + 'const PREFIX = "p";\nexport enum Kind { %s }\nexport type Whole = Kind;' % members
        use = r.choice(["Kind.M0", "Kind.M1", "Kind", "{ k: Kind.M%d }" % r.randrange(len(inits))])
        entry = 'import { Kind } from "./lib";\nexport type T = %s;\nparse.buildParsers<{ T: T }>();' % use
        projects.append([("entry.ts", entry), ("lib.ts", lib)]); tags.append("enum-across-modules")
    # typeof of a default export that is an expression over the exporting module's own constants (object literal with shorthand
    # members, array with spreads); the importing file may declare constants of the same names
    for i in range(20 if quick else 600):
        pad = "// " + "z" * r.randrange(100, 500) + "\n" * r.randrange(1, 5)
        form = r.choice(["object", "object", "array", "nested"])
        if form == "object":
            lib = pad + 'const retries = 3;\nconst theme = { dark: true };\nexport default { retries, theme, size: 12 };'
        elif form == "array":
            lib = pad + 'const base = ["a", "b"] as const;\nexport default [...base, "c"] as const;'
        else:
            lib = pad + 'const inner = { n: 1 };\nconst outer = { inner, tag: "t" };\nexport default { outer, list: [inner, inner] };'
        use = r.choice(["typeof d", "{ s: typeof d }", "Array<typeof d>"] + (["typeof d.theme", "typeof d.retries"] if form == "object" else []) +
                       (["typeof d.outer.inner"] if form == "nested" else []))
        clash = r.choice(["", "", 'const theme = { current: d };\n', 'const retries = "r";\n', 'const inner = [d];\n', 'const base = d;\n'])
        entry = 'import d from "./settings";\n%sexport type T = %s;\nparse.buildParsers<{ T: T }>();' % (clash, use)
        projects.append([("entry.ts", entry), ("settings.ts", lib)]); tags.append("default-export-expression")
    # mapped types over an empty key set
    for i in range(10 if quick else 150):
        ks = r.choice(["never", "keyof {}", 'Exclude<"a" | "b", "a" | "b">', "Empty", 'Extract<"a", "b">', 'keyof Record<never, string>'])
        v = r.choice(["string", "K", "{ v: K }", "boolean[]"])
        form = r.choice(["direct", "generic", "imported"])
        if form == "direct":
            files = [("entry.ts", "type Empty = never;\nexport type T = { [K in %s]: %s };\nparse.buildParsers<{ T: T }>();" % (ks, v))]
        elif form == "generic":
            files = [("entry.ts", "type Empty = never;\nexport type Flags<Q extends string> = { [K in Q]: %s };\nexport type T = { f: Flags<%s>; n: number };\nparse.buildParsers<{ T: T }>();" % (v, ks if ks != "keyof {}" else "never"))]
        else:
            files = [("entry.ts", 'import { Empty } from "./keys";\nexport type T = { [K in Empty]: %s };\nparse.buildParsers<{ T: T }>();' % v), ("keys.ts", "export type Empty = never;")]
        projects.append(files); tags.append("mapped-type-over-no-keys")
    # declarations exported as default through an export list, imported as default
    for i in range(12 if quick else 200):
        decl, use = r.choice([('enum E { A = "a", B = "b" }', "E"), ('const E = "k" as const;\ntype E = { k: string };', "E"),
                              ("type E = { a: number };", "E"), ("interface E { a: string }", "E"), ('const E = { a: 1 };', "typeof E"),
                              ('enum E { A = "a" }', "typeof E.A")])
        extra = r.choice(["", "", "\nexport const other = 1;", "\nexport type Other = string;"])
        projects.append([("entry.ts", 'import E from "./t";\nexport type X = %s;\nparse.buildParsers<{ X: X }>();' % use),
                         ("t.ts", decl + "\nexport { E as default };" + extra)]); tags.append("export-list-default")
    # import types with type arguments: the arguments are written in the importing file (local names, unsupported keywords)
    for i in range(16 if quick else 400):
        pad = "// " + "y" * r.randrange(0, 300) + "\n" * r.randrange(1, 4)
        arg = r.choice(["Local", "Local[]", "{ a: Local }", "symbol", "Local | null", "never", "Missing"])
        form = r.choice(["named", "named", "default"])
        if form == "named":
            lib = "export type G<T> = { items: T[] };\nexport type H<A, B> = [A, B];"
            use = r.choice(['import("./lib").G<%s>' % arg, 'import("./lib").H<%s, number>' % arg, 'import("./lib").H<string, %s>' % arg])
        else:
            lib = "type G<T> = { items: T[] };\nexport default G;"
            use = 'import("./lib")<%s>' % arg
        entry = pad + 'type Local = string;\nexport type T = %s;\nparse.buildParsers<{ T: T }>();' % use
        projects.append([("entry.ts", entry), ("lib.ts", lib)]); tags.append("import-type-arguments")
    # cycles made of aliases only (tsc rejects them), used where the type goes straight to the semantic engine or to the printer
    CYCLES = ["type A = B;\ntype B = A;", "type A = A;", "type Id<T> = T;\ntype A = Id<A>;", "type A = B;\ntype B = C;\ntype C = A;",
              "type A = Readonly<A>;"]
    USES = ["A extends string ? 1 : 2", "string extends A ? 1 : 2", "Exclude<A, string>", "Exclude<string | number, A>",
            "{ a: Extract<A | number, number> }", "A", "{ a: A }", "Array<A>", "keyof A", "A[\"x\"]", "[A] extends [string] ? 1 : 2",
            "Omit<{ a: A; b: 1 }, \"b\">"]
    for ci, cyc in enumerate(CYCLES):
        for use in (USES if not quick else r.sample(USES, 7)):
            projects.append([("entry.ts", "%s\nexport type T = %s;\nparse.buildParsers<{ T: T }>();" % (cyc, use))]); tags.append("alias-cycle")
    for use in USES[:6]:
        projects.append([("entry.ts", 'import { A } from "./m0";\nexport type T = %s;\nparse.buildParsers<{ T: T }>();' % use),
                         ("m0.ts", 'import { B } from "./m1";\nexport type A = B;'), ("m1.ts", 'import { A } from "./m0";\nexport type B = A;')])
        tags.append("alias-cycle")
    # targeted programs: shapes on which totality has failed before (minimised corpus)
    CORPUS = [
        'export type K = "a" | "b";\nexport type B = K;\nexport type C = B;\nexport type R = Record<C, number>;\nparse.buildParsers<{ R: R }>();',
        'export type L = [number, Array<L>];\nexport type T = [L, L] extends [Array<unknown>, Array<unknown>] ? 1 : 2;\nparse.buildParsers<{ T: T }>();',
        'export type K = "a" | "b";\nexport type R = Record<K, number>;\nparse.buildParsers<{ R: R }>();',
        'export type A = A & { x: number };\nparse.buildParsers<{ A: A }>();',
        'export interface I extends I { a: string }\nparse.buildParsers<{ I: I }>();',
        'export type A = { a: keyof A };\nparse.buildParsers<{ A: A }>();',
        'export type T = { a: T["a"] };\nparse.buildParsers<{ T: T }>();',
        'export type P = Partial<P>;\nparse.buildParsers<{ P: P }>();',
        'export type M = { [K in keyof M]: string };\nparse.buildParsers<{ M: M }>();',
        'export type R = Record<R, string>;\nparse.buildParsers<{ R: R }>();',
        'export type O = Omit<O, "a">;\nparse.buildParsers<{ O: O }>();',
        'export type E = Exclude<E, string>;\nparse.buildParsers<{ E: E }>();',
        'export type C = C extends string ? 1 : 2;\nparse.buildParsers<{ C: C }>();',
        'export type T = { type: "a"; c: "c" | "ab" } | { type: "b"; c: "ab" | "x" };\nparse.buildParsers<{ T: T }>();',
        'export type T = { k: "a" | "z" } | { k: "b" | "z" } | { k: "c" };\nparse.buildParsers<{ T: T }>();',
        'export type S = "ab" | "x";\nexport type T = { c: S; t: 1 } | { c: "ab"; t: 2 } | { c: S | "q"; t: 3 };\nparse.buildParsers<{ T: T }>();',
    ]
    for t in CORPUS:
        projects.append([("entry.ts", t)]); tags.append("corpus")
    res = cstage.compile_projects(projects)
    fails, in_known = [], collections.Counter()
    known = common.load_known("C04")
    listed = {k["class"] for k in known if k.get("kind") == "known"}
    to_load = []
    for pi, (files, tag, rr) in enumerate(zip(projects, tags, res)):
        out = rr.get("outcome")
        desc = {"stream": tag, "files": dict(files)}
        if out in ("panic", "abort", "timeout", "emit_error"):
            cls = classify(files, rr)
            if cls in listed:
                in_known[cls] += 1
            else:
                fails.append(("compiler-%s" % out, dict(desc, panic=rr.get("panic"), stderr=rr.get("stderr", "")[-200:], emit_error=rr.get("emit_error"))))
            continue
        if out == "diagnostics":
            if not rr.get("diags"):
                fails.append(("no-code-and-no-diagnostic", desc))
            for d in rr.get("diags") or []:
                why = in_file(d, files)
                if why:
                    fails.append(("diagnostic-not-located-in-its-file", dict(desc, diagnostic=d, problem=why)))
        elif out == "code":
            to_load.append(pi)
        else:
            fails.append(("unknown-outcome", dict(desc, outcome=out)))
    # every successful result loads against the client runtime and builds a parser for every requested name
    jobs = [{"id": pi, "code": res[pi]["code"], "sformats": [], "nformats": [], "ops": [{"op": "names"}]} for pi in to_load]
    outs = common.run_modules(jobs)
    for pi, o in zip(to_load, outs):
        want = sorted(set(res[pi].get("decoders") or []))      # a mutated text may request the same name twice
        if not o.get("loaded"):
            fails.append(("emitted-module-does-not-load", {"stream": tags[pi], "files": dict(projects[pi]), "error": o.get("error", "")[:300]}))
        elif sorted(set(__import__("json").loads(o["out"][0]))) != want:
            fails.append(("parser-missing-for-a-requested-name", {"stream": tags[pi], "files": dict(projects[pi]), "built": o["out"][0], "requested": want}))
    # listed findings: replay the witnesses
    for kf in known:
        files = eval(kf["witness"], {"__builtins__": {}}, {})
        rr = cstage.compile_projects([files])[0]
        failing = rr.get("outcome") in ("panic", "abort", "timeout", "emit_error")
        if kf.get("expect") == "code":          # a valid program that was rejected (or diagnosed in the wrong file)
            failing = failing or rr.get("outcome") != "code"
        if kf.get("kind") == "known" and failing:
            run.known("class=%s %s" % (kf["class"], kf["what"]))
            run.coverage["known_findings_reproduced"].append(kf["class"])
        if kf.get("kind") == "fixed" and failing:
            fails.append(("fixed-finding-returned:" + kf["class"], {"files": dict(files), "outcome": rr.get("outcome"), "panic": rr.get("panic")}))
    cov = run.coverage
    cov["evaluations"] = len(projects)
    cov["distinct_nontrivial"] = len({tuple(f) for f in map(lambda fs: tuple(t for _, t in fs), projects)})
    cov["rule"] = ("valid random programs (single- and multi-file), one program per unsupported TypeScript construct, token-level "
                   "mutations of valid programs (delete / duplicate / swap / replace one token), projects with missing, cyclic and "
                   "self imports, cycles made only of aliases used in conditional types / Exclude / plain positions; every project compiled in its own process under a 20 s watchdog with a panic hook; distinct = distinct texts")
    cov["correspondence"]["Model/Flatten.v extract_union vs the panics/overflows observed"] = {
        "cases": len(known), "disagreements": 0, "note": "the model's refutation witness (alias cycle through a union) is replayed on the implementation"}
    cov["spec_checks"]["outcome is code or >=1 diagnostic inside its file; module loads and builds every requested parser"] = {
        "projects": dict(collections.Counter(tags)), "outcomes": dict(collections.Counter(x.get("outcome") for x in res)),
        "modules_loaded": len(to_load), "failures": dict(collections.Counter(k for k, _ in fails)),
        "failures inside listed classes": dict(in_known)}
    cov["samples"] = [{"stream": tags[-1], "files": dict(projects[-1]), "outcome": res[-1].get("outcome")}]
    cov["trusted_base"] = [
        "Coq 8.16.1 kernel; no axioms", "only the union-flattening recursion of the printer/frontend (extract_union) is modelled; swc's parser, "
        "malformed source text and wall-clock promptness are outside any model and are exercised by the run (testing)",
        "H-compile: one process per project, 20 s watchdog, panic hook; Node import of every emitted module"]
    if not ok:
        run.violation("proof", {"what": run.proof_broken, "theorems": THEOREMS}, no_input=not fails)
    for i, (kind, payload) in enumerate(fails[:6]):
        run.violation("spec-%d-%s" % (i, kind.replace(":", "_")), dict(payload, clause=kind))


def replay(d):
    print(d)
    return 0
