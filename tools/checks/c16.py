"""C16 — schema-printing contexts collect definitions independently of call order."""
import collections
import json
import random
from lib import common, rstage, gen
from lib.vals import *

THEOREMS = ["C16_schema_independent_of_context", "C16_print_preserves_context_invariant", "C16_collected_ref_is_noop",
            "C16_order_independent_example", "C16_every_ref_resolves_in_the_final_export", "C16_refs_nonvacuous"]
IMPORTS = "From Beff Require Import Model.Cases."


def refs_in(j, acc):
    if isinstance(j, dict):
        for k, v in j.items():
            if k == "$ref" and isinstance(v, str):
                acc.add(v)
            elif k == "discriminator" and isinstance(v, dict) and isinstance(v.get("mapping"), dict):
                acc.update(x for x in v["mapping"].values() if isinstance(x, str))      # mapping targets are references too (sref)
            else:
                refs_in(v, acc)
    elif isinstance(j, list):
        for x in j:
            refs_in(x, acc)
    return acc


def canon(j):
    return json.dumps(j, sort_keys=True)


def histories(seed, n, quick):
    """families of parsers sharing named (recursive) types + call sequences with repetitions"""
    g = gen.Gen(seed, schemaable=0.97)
    r = g.r
    out = []
    base = rstage.gen_cases(seed + 1, n, 1, depth=3, schemaable=0.97) + rstage.gen_forced(seed + 2, n // 2, 1)
    for c in base:
        names = [k for k, _ in c["env"]]
        rts = [c["rt"]] + [g.rt(2, names) for _ in range(2)] + [("Ref", k) for k in names]
        if names:
            rts.append(("Object", [("x", ("Ref", r.choice(names))), ("y", ("Array", ("Ref", r.choice(names))))], []))
        calls = [r.randrange(len(rts)) for _ in range(r.randrange(1, 8 if quick else 30))]
        out.append({"env": c["env"], "rts": rts, "calls": calls})
    # recursive named discriminated unions with inline variants, reached through another discriminated union
    for i in range(max(10, n // 6)):
        d1, d2 = r.sample(["kind", "type", "tag"], 2)
        leaf = ("Object", [(d1, ("Const", "leaf")), ("v", g.leaf())], [])
        node = ("Object", [(d1, ("Const", "node")), ("next", r.choice([("Ref", "Tree"), ("Array", ("Ref", "Tree")),
                                                                       ("AnyOf", [("Ref", "Tree"), ("Nullish", "null")])]))], [])
        tree = ("Disc", [leaf, node], d1, [("leaf", leaf), ("node", node)], [("leaf", leaf), ("node", node)])
        ping = ("Object", [(d2, ("Const", "ping"))], [])
        wrap = ("Object", [(d2, ("Const", "tree")), ("tree", ("Ref", "Tree"))], [])
        msg = ("Disc", [ping, wrap], d2, [("ping", ping), ("tree", wrap)], [("ping", ping), ("tree", wrap)])
        env = [("Tree", tree), ("Msg", msg)]
        rts = [("Ref", "Msg"), ("Ref", "Tree"), ("Object", [("m", ("Ref", "Msg")), ("t", ("Array", ("Ref", "Tree")))], []), msg]
        calls = [r.randrange(len(rts)) for _ in range(r.randrange(2, 7))]
        out.append({"env": env, "rts": rts, "calls": calls})
    # two different discriminated unions (same discriminator) sharing a structurally identical inline variant
    for i in range(max(10, n // 6)):
        d = r.choice(["kind", "type", "tag"])
        extra = r.choice([[], [("meta", ("Ref", "Meta"))], [("meta", ("Ref", "Meta")), ("n", g.leaf())]])
        va = ("Object", [(d, ("Const", "a"))] + extra, [])
        vb = ("Object", [(d, ("Const", "b")), ("x", g.leaf())], [])
        vc = ("Object", [(d, ("Const", "c")), ("y", g.leaf())], [])
        ab = ("Disc", [va, vb], d, [("a", va), ("b", vb)], [("a", va), ("b", vb)])
        ac = ("Disc", [va, vc], d, [("a", va), ("c", vc)], [("a", va), ("c", vc)])
        env = [("Meta", ("Object", [("id", g.leaf())], [])), ("EvAB", ab), ("EvAC", ac)]
        rts = [("Ref", "EvAB"), ("Ref", "EvAC"), ("Object", [("page", ac), ("m", ("Ref", "Meta"))], []), ("Array", ("Ref", "EvAB"))]
        calls = r.sample([0, 1], 2) + [r.randrange(len(rts)) for _ in range(r.randrange(0, 4))]
        out.append({"env": env, "rts": rts, "calls": calls})
    # two different discriminated unions with the same discriminator and the same key set (only the payloads differ)
    for i in range(max(10, n // 6)):
        d = r.choice(["kind", "type", "tag"])
        ks = r.sample(["a", "b", "c", "CRON", "EVENT"], r.randrange(2, 4))
        def union(tag):
            ms = [("Object", [(d, ("Const", k)), (tag + k.lower(), g.leaf())] + ([("n", g.leaf())] if r.random() < 0.4 else []), []) for k in ks]
            mp = [(k, m) for k, m in zip(ks, ms)]
            return ("Disc", ms, d, mp, mp)
        env = [("JobA", union("p")), ("JobB", union("q"))]
        rts = [("Ref", "JobA"), ("Ref", "JobB"), ("Object", [("a", ("Ref", "JobA")), ("b", ("Array", ("Ref", "JobB")))], []), union("r")]
        calls = r.sample([0, 1], 2) + [r.randrange(len(rts)) for _ in range(r.randrange(0, 4))]
        out.append({"env": env, "rts": rts, "calls": calls})
    return out


TEMPLATES = ["#/components/schemas/{name}", "#/$defs/{name}", "{name}", "defs.json#/{name}/{name}", "#/d/$&/{name}", "#/definitions/{name}.json"]


def configure(h, r):
    """settings of the context (template, container key, overrides) and hostile names for some named types"""
    names = [k for k, _ in h["env"]]
    if names and r.random() < 0.3:
        h["env"], h["rts"] = rstage.hostile_names(r, h["env"], h["rts"])
        names = [k for k, _ in h["env"]]
    h["template"] = r.choice(TEMPLATES) if r.random() < 0.4 else TEMPLATES[0]
    h["container"] = r.choice(["$defs", "components", "__proto__"]) if r.random() < 0.25 else None
    h["overrides"] = []
    if names and r.random() < 0.25:
        cand = [i for i, x in enumerate(h["rts"]) if x[0] != "Ref"]
        for n in r.sample(names, r.randrange(1, min(2, len(names)) + 1)):
            if cand: h["overrides"].append((n, r.choice(cand)))
    return h


def conf_coq(h):
    return "{| ref_template := %s; container_key := %s; overrides := %s |}" % (
        coq_str(h["template"]), "None" if h["container"] is None else "(Some %s)" % coq_str(h["container"]),
        coq_list("(%s, %s)" % (coq_str(n), rt_coq(h["rts"][i])) for n, i in h["overrides"]))


def ctx_op(h, calls):
    op = {"op": "ctxseq", "calls": calls, "fresh": True, "template": h["template"]}
    if h["container"] is not None: op["container"] = h["container"]
    if h["overrides"]: op["overrides"] = {n: i for n, i in h["overrides"]}
    return op


def defs_of(h, exported):
    return exported if h.get("container") is None else exported.get(h["container"], {})


def resolves(h, ref, defs):
    t = h.get("template", TEMPLATES[0])
    return any(t.replace("{name}", n, 1) == ref for n in defs)


def judge(h, a, b, throwing):
    """C16 on the implementation alone: a = the history, b = its permutation (both with the fresh-context oracle)."""
    problems = []
    for tag, res, calls in (("history", a, h["calls"]), ("permuted", b, h["perm"])):
        defs = defs_of(h, res["raw"]["defs"])
        expected = {}
        for idx in set(calls):
            fr = res["fresh"][str(idx)]
            if "error" in fr:
                continue
            for name, body in defs_of(h, fr["defs"]).items():
                expected.setdefault(name, body)
                if name in defs and canon(defs[name]) != canon(body):
                    problems.append("%s: definition %s differs from the one a fresh context prints for parser %d" % (tag, name, idx))
                if name not in defs:
                    problems.append("%s: definition %s (needed by parser %d) missing from the export" % (tag, name, idx))
        # every $ref of every returned schema and every definition resolves
        refs = set()
        for o in res["raw"]["outs"]:
            if not (isinstance(o, dict) and "__error" in o):
                refs_in(o, refs)
        refs_in(defs, refs)
        for ref in refs:
            if not resolves(h, ref, defs):
                problems.append("%s: dangling $ref %s" % (tag, ref))
        for name, body in defs.items():
            if body == {} and canon(expected.get(name, None)) != "{}":
                problems.append("%s: definition %s left empty" % (tag, name))
    if canon(a["raw"]["defs"]) != canon(b["raw"]["defs"]) and not throwing:
        problems.append("export differs between the history and its permutation")
    return problems


def check(run):
    ok = run.prove("Props.C16", THEOREMS, ["Props/C16.vo"])
    common.ensure_harness()
    quick = run.tier == "quick"
    rnd = random.Random(run.seed + 1600)
    hs = histories(run.seed + 1601, 140 if quick else 5000, quick)
    jobs, exprs = [], []
    for i, h in enumerate(hs):
        perm = list(h["calls"])
        rnd.shuffle(perm)
        h["perm"] = perm + perm[: rnd.randrange(0, 3)]
        configure(h, rnd)
        ops = [ctx_op(h, h["calls"]), ctx_op(h, h["perm"])]
        jobs.append({"id": i, "env": env_json(h["env"]), "rts": [rt_json(x) for x in h["rts"]], "ops": ops})
        exprs.append("run_ctxseq %s %s %s %s" % (env_coq(h["env"]), conf_coq(h), coq_list(rt_coq(x) for x in h["rts"]),
                                                   coq_list(str(k) for k in h["calls"])))
    js = common.run_driver(jobs)
    cq = common.run_coq_cases(IMPORTS, exprs, tag="C16")
    disagree, fails, in_known = [], [], collections.Counter()
    known = common.load_known("C16")
    listed = {k["class"] for k in known if k.get("kind") == "known"}
    n_ok_hist = n_throw_hist = 0
    for i, (h, out) in enumerate(zip(hs, js)):
        a, b = json.loads(out[0]), json.loads(out[1])
        model = cq[i]
        line = a["line"]
        desc = {"env": repr(h["env"]), "parsers": [repr(x) for x in h["rts"]], "calls": h["calls"],
                "template": h["template"], "container": h["container"], "overrides": h["overrides"]}
        throwing = any(isinstance(o, dict) and "__error" in o for o in a["raw"]["outs"])
        if "<after-throw>" in model:
            pa, pb = line.split(" ==> ")[0].split(" ;; "), model.split(" ==> ")[0].split(" ;; ")
            k = pb.index("<after-throw>") if "<after-throw>" in pb else len(pb)
            if pa[:k] != pb[:k]:
                disagree.append(dict(desc, impl=line[:500], model=model[:500]))
        elif line != model:
            disagree.append(dict(desc, impl=line[:500], model=model[:500]))
        # ---- the property, judged on the implementation alone
        problems = judge(h, a, b, throwing)
        if throwing:
            n_throw_hist += 1
        else:
            n_ok_hist += 1
        if problems:
            same_as_model = ("<after-throw>" in model) or line == model
            if throwing and "after_throwing_call" in listed and same_as_model:
                in_known["after_throwing_call"] += 1
            else:
                fails.append((problems[0], dict(desc, permuted_calls=h["perm"], problems=problems[:6], export=a["raw"]["defs"])))
    cov = run.coverage
    cov["evaluations"] = 2 * len(hs)
    cov["distinct_nontrivial"] = sum(1 for h in hs if len(set(h["calls"])) > 1 and h["env"])
    cov["rule"] = ("families of parsers sharing named and recursive types; a history of schemaWithContext calls (with repetitions) and a "
                   "random permutation of it on fresh contexts; oracle = each parser printed alone into a fresh context; "
                   "non-trivial = at least two distinct parsers and at least one named type")
    cov["correspondence"]["schemaWithContext histories + exportDefinitions impl vs model"] = {
        "cases": len(hs), "disagreements": len(disagree),
        "distribution": {"history_lengths": dict(collections.Counter(len(h["calls"]) for h in hs)),
                         "histories_without_throw": n_ok_hist, "histories_with_a_throwing_call": n_throw_hist}}
    cov["spec_checks"]["C16 clauses on the implementation (fresh-context oracle, $ref resolution, permutation)"] = {
        "judged": 2 * len(hs), "failures": len(fails), "failures inside listed classes": dict(in_known)}
    cov["samples"] = [{"env": repr(hs[0]["env"]), "calls": hs[0]["calls"], "impl": json.loads(js[0][0])["line"][:400]}]
    cov["trusted_base"] = [
        "Coq 8.16.1 kernel, vm_compute; no axioms",
        "Model/Schema.v (schema() of every class, SchemaPrintingContext) tied to codegen-v2.ts by comparing every returned schema and "
        "the final export of each history; after a throwing call the model stops (the state after a throw is not modelled)",
        "tsstrip, Node driver; JSON compared up to key order",
        "contexts are configured with generated ref templates (including ones without or with two {name} holes and with $-patterns), "
        "container keys, named-type overrides and named types called like Object.prototype members or containing '$'"]
    for k in known:
        w = eval(k["witness"], {"__builtins__": {}}, {"None": None, "True": True, "False": False})
        w.setdefault("template", TEMPLATES[0]); w.setdefault("container", None); w.setdefault("overrides", [])
        w["perm"] = list(reversed(w["calls"]))
        out = common.run_driver([{"id": 0, "env": env_json(w["env"]), "rts": [rt_json(x) for x in w["rts"]],
                                  "ops": [ctx_op(w, w["calls"]), ctx_op(w, w["perm"])]}])[0]
        wa, wb = json.loads(out[0]), json.loads(out[1])
        dangling = judge(w, wa, wb, any(isinstance(o, dict) and "__error" in o for o in wa["raw"]["outs"]))
        if k.get("kind") == "known" and dangling:
            run.known("class=%s %s" % (k["class"], k["what"]))
            cov["known_findings_reproduced"].append(k["class"])
        if k.get("kind") == "fixed" and dangling:
            run.violation("fixed-finding-returned-" + k["class"], {"witness": k["witness"], "problems": dangling[:6]})
    if not ok:
        run.violation("proof", {"what": run.proof_broken, "theorems": THEOREMS}, no_input=not fails)
    for i, (kind, payload) in enumerate(fails[:5]):
        run.violation("spec-%d" % i, dict(payload, clause=kind))
    if disagree and not fails:
        run.violation("correspondence", {
            "what": "correspondence stream 'schemaWithContext histories impl vs model' no longer checks (%d histories); "
                    "no history violating C16 was found" % len(disagree), "first": disagree[0]}, no_input=True)


def replay(d):
    print(d)
    return 0
